"""C05 - loading what was dumped gives back an equal object (YAML round trip).

Monitor: for generated values of unambiguous class models, the text returned
by the dumps function is fed to the matching load function and the result is
compared structurally (classes, bound arguments, order, NaN = NaN, signed
zero, datetime stays datetime) with the original value.  Two cooperating
components (dumper + loader) are observed at their public boundaries only.
"""
import re

import yaml

import yatiml
from checks import c06
from vlib import docs as D
from vlib import harness as H
from vlib import modelgen as G
from vlib import plain
from vlib import values as V

PROPERTY = 'C05'
RULE = ('cases = (unambiguous class model, value). Values of the document '
        'type and of every registered class: adversarial strings (number, '
        'boolean, null, date and YAML-syntax look-alikes, YAML 1.1 and 1.2 '
        'spellings, whitespace, multi-line, NEL/LS/PS, controls, non-BMP) at '
        'top level, as list items, dict keys and values, attributes, extra '
        'attributes, string-like values and keys, Paths; non-finite and '
        'extreme floats, big ints, dates and naive/aware datetimes, enum '
        'members incl. boolean-looking names, defaults equal/unequal for '
        'default-value sweetening, inverse sweeten/savorize pairs (dashes, '
        'discriminator, number words, enum case), objects referenced more '
        'than once. Non-trivial: the value contains a class instance, enum, '
        'string-like or container; distinct by (model, value digest).')
ASSUMPTIONS = [
    'unambiguity is by construction of the model generator (every plain class '
    'has a required parameter no unrelated class uses; unions take one member '
    'per node kind/tag group; Any holds plain data)',
    'a failing round trip of a value with shared objects is keyed as the '
    'node-sharing mechanism (a shared object is dumped with an anchor and the '
    'shared node rewritten in place on loading; once a known finding, since '
    'repaired in the repository, so reported as a violation if it returns) '
    'only if the same value with all sharing removed round-trips',
    'lone surrogates are excluded (not representable in a YAML stream)',
    'default-value sweetening compares with ==, so -0.0 is dropped for a '
    'default of 0.0 and returns as 0.0: that sign change is not judged',
]


def requirements(tier):
    q = tier == 'quick'
    return {'roundtrips': 30000 if q else 400000,
            'class_values': 15000 if q else 200000,
            'lookalike_strings_roundtripped': 30000 if q else 400000,
            'shared_object_values': 150 if q else 2000,
            'sweetened_values': 3000 if q else 40000,
            'nonfinite_floats': 300 if q else 4000,
            'dates': 3000 if q else 40000}


def unshare(model, v):
    """Deep copy of a value without any shared sub-objects."""
    return V.decode_value(model, strip_shared(V.encode_value(v), {}))


def strip_shared(e, table):
    if isinstance(e, dict):
        if '$shared' in e:
            import copy
            return strip_shared(copy.deepcopy(table[e['$shared']]), table)
        out = {}
        if 'id' in e:
            table[e['id']] = e
        for k, x in e.items():
            if k in ('args',):
                out[k] = [[a, strip_shared(b, table)] for a, b in x]
            elif k == '$m':
                out[k] = [[strip_shared(a, table), strip_shared(b, table)]
                          for a, b in x]
            elif k == '$l':
                out[k] = [strip_shared(a, table) for a in x]
            else:
                out[k] = x
        return out
    return e


def has_shared(e):
    if isinstance(e, dict):
        if '$shared' in e:
            return True
        return any(has_shared(x) for x in e.values())
    if isinstance(e, list):
        return any(has_shared(x) for x in e)
    return False


def shared_rewritable(e):
    """Does some object that is referenced more than once hold (or is it)
    something whose node yatiml rewrites in place when loading - a class
    instance, enum member, string-like object or Path?  Only then can the
    alias mechanism of the known finding be the cause of a failure."""
    targets = set()
    index = {}

    def walk(x):
        if isinstance(x, dict):
            if '$shared' in x:
                targets.add(x['$shared'])
            if 'id' in x and any(k in x for k in ('$inst', '$m', '$l')):
                index[x['id']] = x
            for y in x.values():
                walk(y)
        elif isinstance(x, list):
            for y in x:
                walk(y)
    walk(e)

    def rewritable(x):
        if isinstance(x, dict):
            if any(k in x for k in ('$inst', '$enum', '$strlike', '$p')):
                return True
            return any(rewritable(y) for y in x.values())
        if isinstance(x, list):
            return any(rewritable(y) for y in x)
        return False
    return any(rewritable(index.get(t)) for t in targets)


def count_features(ctx, v):
    for s in plain.walk_strings(D_plain(v)):
        ctx.count('lookalike_strings_roundtripped')
    import math
    import datetime as dt

    def walk(x, d=0):
        if d > 40:
            return
        if isinstance(x, float) and (math.isnan(x) or math.isinf(x)):
            ctx.count('nonfinite_floats')
        elif isinstance(x, dt.date):
            ctx.count('dates')
        elif isinstance(x, dict):
            for k, y in x.items():
                walk(k, d + 1)
                walk(y, d + 1)
        elif isinstance(x, list):
            for y in x:
                walk(y, d + 1)
        else:
            a = getattr(x, '_v_args', None)
            if a is not None:
                for y in a.values():
                    walk(y, d + 1)
    walk(v)


def D_plain(v, d=0):
    """All strings reachable in a value (for counting)."""
    a = getattr(v, '_v_args', None)
    if a is not None and d < 40:
        return [D_plain(x, d + 1) for x in a.values()]
    if isinstance(v, dict) and d < 40:
        return {str(k): D_plain(x, d + 1) for k, x in v.items()}
    if isinstance(v, list) and d < 40:
        return [D_plain(x, d + 1) for x in v]
    if isinstance(v, str):
        return v
    if not isinstance(v, (int, float, bool, type(None))) and hasattr(
            v, '__str__') and type(v).__name__[:1] in 'SUL':
        return str(v)
    return None


def roundtrip(m, spec, t, v):
    """-> (text, kind, x)"""
    dumps = m.dumps_fn()
    load = m.load_fn(doc_type=t)
    text = dumps(v)
    kind, x = H.run_load(load, text)
    return text, kind, x


def run_value(ctx, spec, t, v):
    m = H.model_of(spec)
    enc = V.encode_value(v)
    case = {'spec': spec, 'type': t, 'value': enc}
    data = D.proj(m, v)
    if not c06.strings_ok(data):
        ctx.count('skipped_lone_surrogates')
        return
    try:
        text, kind, x = roundtrip(m, spec, t, v)
    except Exception as e:
        mech = ''
        if has_shared(enc):
            # PyYAML represents an object referenced twice by one node; a
            # sweetener that rewrites nodes in place (seq_attribute_to_map
            # strips the key attribute from the item nodes) then finds the
            # node already rewritten: the alias mechanism on the dump side
            try:
                v2 = unshare(m, v)
                t2, k2, x2 = roundtrip(m, spec, t, v2)
                if k2 == 'ok' and V.vsame(x2, v2):
                    mech = ' only-with-shared-objects(alias-mechanism)' \
                        if shared_rewritable(enc) else \
                        ' only-with-shared-plain-data'
            except Exception:
                pass
        ctx.violation('C05 dumps-raised %s %s%s' % (
            type(e).__name__, H.exc_site(e), mech),
            'dumps raised %s: %s for %s' % (
                type(e).__name__, str(e)[:200],
                c06.short(V.vdigest(v))), case)
        return
    ctx.count('roundtrips')
    shared = has_shared(enc)
    if shared:
        ctx.count('shared_object_values')
    if getattr(v, '_v_args', None) is not None:
        ctx.count('class_values')
        if any(m.cspecs[k].get('sweeten') for k in
               D._registered_bases_first(m, type(v).__name__)):
            ctx.count('sweetened_values')
    count_features(ctx, v)
    ok = kind == 'ok' and V.vsame(x, v)
    if not ok and kind == 'ok' and any(
            c.get('sweeten') == [['remove_defaults']]
            for c in spec['classes']):
        # default-value sweetening compares with ==: -0.0 is dropped for a
        # default of 0.0 and comes back as 0.0 (not judged)
        ok = json_nosign(V.vdigest(x)) == json_nosign(V.vdigest(v))
        if ok:
            ctx.count('signed_zero_or_int_float_twin_dropped_as_default_(not_judged)')
    if not ok:
        mech = ''
        if shared:
            # is the alias mechanism (known finding of C18) the only cause?
            try:
                v2 = unshare(m, v)
                t2, k2, x2 = roundtrip(m, spec, t, v2)
                if k2 == 'ok' and V.vsame(x2, v2):
                    mech = ' only-with-shared-objects(alias-mechanism)' \
                        if shared_rewritable(enc) else \
                        ' only-with-shared-plain-data'
            except Exception:
                pass
        if kind == 'err':
            ctx.violation(
                'C05 load-of-dump-raised %s%s' % (
                    type(x).__name__,
                    mech if mech else ' ' + fail_feature(x, text)),
                'load(dumps(v)) raised %s: %s; dump %r; value %s' % (
                    type(x).__name__, str(x)[-300:], text[:300],
                    c06.short(V.vdigest(v))), case)
        else:
            ctx.violation(
                'C05 roundtrip-value-differs%s' % (
                    mech if mech else ' ' + c06.diff_kind(
                        plainish(x), plainish(v))),
                'load(dumps(v)) != v: dump %r; got %s; expected %s' % (
                    text[:300], c06.short(V.vdigest(x)),
                    c06.short(V.vdigest(v))), case)
    ctx.case(case, V.has_instance(v))
    if ok and V.has_instance(v) and len(ctx.samples) < 4:
        ctx.sample({'type': t, 'text': text[:300],
                    'value': c06.short(V.vdigest(v), 300)}, 'roundtrip')


def json_nosign(d):
    """Digest with the distinctions Python's == does not make removed:
    the sign of zero, and int against float of the same value (1 == 1.0).
    Default-value sweetening compares with ==, so a model whose class
    removes defaults drops -0.0 for a default of 0.0 and the int 1 for a
    default of 1.0, and gets the default back: the model author's choice,
    not the library's (C14 leaves the same pairs open)."""
    if isinstance(d, list):
        if len(d) == 2 and d[0] == 'float' and d[1] == '-0.0':
            return ['num', '0.0']
        if len(d) == 2 and d[0] in ('int', 'float') and isinstance(d[1], str):
            try:
                f = float(d[1])
                if d[0] == 'float' or abs(int(d[1])) < 2 ** 53:
                    return ['num', repr(f)]
            except (ValueError, OverflowError):
                pass
            return d
        return [json_nosign(x) for x in d]
    return d


def plainish(v, d=0):
    """Value -> plain nested structure for diff_kind."""
    a = getattr(v, '_v_args', None)
    if d > 40:
        return None
    if a is not None:
        return {'__class__': type(v).__name__, **{
            k: plainish(x, d + 1) for k, x in a.items()}}
    if isinstance(v, dict):
        return {(k if isinstance(k, (str, int, float, bool, type(None)))
                 else '%s(%s)' % (type(k).__name__, k)): plainish(x, d + 1)
                for k, x in v.items()}
    if isinstance(v, list):
        return [plainish(x, d + 1) for x in v]
    import enum
    if isinstance(v, enum.Enum):
        return 'enum:%s.%s' % (type(v).__name__, v.name)
    if isinstance(v, (str, int, float, bool, type(None))) and type(
            v).__module__ == 'builtins':
        return v
    return '%s:%s' % (type(v).__name__, v)


def fail_feature(exc, text=''):
    msg = str(exc)
    if 'Invalid value for a scalar' in msg and \
            'tag:yaml.org,2002:timestamp' in msg and re.search(
                r"!!timestamp '[^']*[-+]\d\d:\d\d:\d\d(\.\d+)?'",
                text or ''):
        # a datetime whose UTC offset is no whole number of minutes was
        # written as isoformat() under an explicit tag
        return 'timestamp-with-utc-offset-not-in-whole-minutes'
    for pat, name in (('Could not determine which', 'ambiguous'),
                      ('Expected a string matching', 'string-like-expected'),
                      ('Expected a', 'type-mismatch'),
                      ('contains itself', 'cycle'),
                      ('not allowed here', 'extraneous-key'),
                      ('was not found', 'missing-key'),
                      ('Invalid value for a scalar', 'invalid-scalar'),
                      ('unacceptable character', 'unreadable-character')):
        if pat in msg:
            return name
    return 'other'


def shard(ctx):
    rng = ctx.rng
    n_models = ctx.budget(7000, 100000)
    for i in range(n_models):
        spec = G.gen_model(rng, 'unamb')
        try:
            m = H.model_of(spec)
        except Exception:
            ctx.count('model_build_failed')
            continue
        spec = H.clean_spec(spec)
        share = 0.5 if rng.random() < 0.25 else 0.0
        for t, v in c06.gen_values(ctx, spec, m, 5, share=share):
            run_value(ctx, spec, t, v)
    for _ in range(ctx.budget(1500, 20000)):
        run_defaults_family(ctx, rng)
    for _ in range(ctx.budget(1500, 20000)):
        run_roster_family(ctx, rng)
    spec0 = {'classes': [], 'doc_type': 'any'}
    xspec = {'classes': [{'name': 'X1', 'kind': 'plain', 'extra': True,
                          'params': [{'name': 'x1_id', 'type': 'int'},
                                     {'name': 'x1_any', 'type': 'any'}]}],
             'doc_type': ['cls', 'X1']}
    xm = H.model_of(xspec)
    for _ in range(ctx.budget(1500, 20000)):
        v = shared_plain(rng)
        ctx.count('shared_plain_values')
        run_value(ctx, spec0, 'any', v)
        run_value(ctx, spec0, ['dict', 'str', 'any'], {'k': v})
        import collections
        obj = xm.classes['X1'](x1_id=1, x1_any=v,
                               _yatiml_extra=collections.OrderedDict(
                                   [('e', shared_plain(rng))]))
        run_value(ctx, H.clean_spec(xspec), ['cls', 'X1'], obj)
    for _ in range(ctx.budget(8000, 100000)):
        v = plain.rand_plain(rng, depth=3, classes=('look', 'uni'),
                             finite=False, dates=True)
        run_value(ctx, spec0, 'any', v)
    # every look-alike string in every position kind, plain model
    pools = plain.STR_LOOKALIKE + plain.STR_UNICODE + plain.STR_JSONY
    for i, s in enumerate(pools):
        if not ctx.mine(i):
            continue
        for t, v in (('str', s), (['list', 'str'], [s, s + 'x']),
                     (['dict', 'str', 'str'], {s: s}),
                     ('any', {'k': [s, {s: None}]}),
                     (['opt', 'str'], s),
                     (['union', 'int', 'str', 'float', 'bool'], s)):
            run_value(ctx, spec0, t, v)


def defaults_family(rng):
    """Sibling classes that inherit one _yatiml_defaults dict from their
    base, redefine the default of a shared parameter and each remove their
    own defaults when sweetening; plus a sibling that inherits __init__."""
    pool = [1, 2, 3, 5]
    base = {'name': 'B0', 'kind': 'plain', 'abc': True,
            'params': [{'name': 'tag', 'type': 'str'},
                       {'name': 'width', 'type': 'int', 'default': 1},
                       {'name': 'note', 'type': ['opt', 'str'],
                        'default': None}, {'name': 'level', 'type': ['union', 'int', 'str'], 'default': 0}, {'name': 'ratio', 'type': ['union', 'float', 'str'], 'default': 1.5}],
            'defaults_override': rng.choice([{'zz_unused': 1},
                                             {'note': 'n/a'}])}
    classes = [base]
    for i, d in enumerate(rng.sample(pool, rng.randint(2, 3))):
        k = {'name': 'Kid%d' % i, 'kind': 'plain', 'bases': ['B0'],
             'params': [{'name': 'tag', 'type': 'str'},
                        {'name': 'kid%d_id' % i, 'type': 'int'},
                        {'name': 'width', 'type': 'int', 'default': d},
                        {'name': 'note', 'type': ['opt', 'str'],
                         'default': None}, {'name': 'level', 'type': ['union', 'int', 'str'], 'default': 0}, {'name': 'ratio', 'type': ['union', 'float', 'str'], 'default': 1.5}],
             'sweeten': [['remove_defaults']], 'savorize': [['record']]}
        if rng.random() < 0.3:
            k['defaults_override'] = {'note': 'kid%d' % i}
        if rng.random() < 0.5:
            k['extra'] = True       # _yatiml_extra: Optional[...] = None
        classes.append(k)
    # two classes that inherit Kid0's __init__ (define none themselves), each
    # with its own _yatiml_defaults and its own default-removing sweetener
    # (their common parent removes nothing itself: a base-class sweetener
    # would act on the heirs' nodes with the base's defaults)
    k0 = {'name': 'HBase', 'kind': 'plain', 'bases': ['B0'],
          'params': [{'name': 'tag', 'type': 'str'},
                     {'name': 'hb_id', 'type': 'int'},
                     {'name': 'width', 'type': 'int', 'default': 2},
                     {'name': 'note', 'type': ['opt', 'str'],
                      'default': None}, {'name': 'level', 'type': ['union', 'int', 'str'], 'default': 0}, {'name': 'ratio', 'type': ['union', 'float', 'str'], 'default': 1.5}],
          'recognize': ['attr_value', 'heir', 'HBase'],
          'savorize': [['remove_attr', 'heir']],
          'sweeten': [['set_attr', 'heir', 'HBase']]}
    classes.append(k0)
    for j, note in enumerate(['slow', 'fast']):
        classes.append({'name': 'Heir%d' % j, 'kind': 'plain',
                        'bases': ['HBase'], 'inherit_init': True,
                        'params': [dict(q) for q in k0['params']],
                        'defaults_override': {'note': note},
                        'sweeten': [['remove_defaults']],
                        'savorize': [['record']],
                        'recognize': ['attr_value', 'heir', 'Heir%d' % j],
                        })
        classes[-1]['savorize'] = [['remove_attr', 'heir']]
        classes[-1]['sweeten'] = [['remove_defaults'],
                                  ['set_attr', 'heir', 'Heir%d' % j]]
    return {'classes': classes, 'doc_type': ['list', ['cls', 'B0']],
            'profile': 'defaults-family'}


def run_defaults_family(ctx, rng):
    spec = defaults_family(rng)
    try:
        m = H.model_of(spec)
    except Exception as e:
        ctx.note('defaults family: %r' % (e,))
        return
    spec = H.clean_spec(spec)
    kids = [c for c in spec['classes'] if c['name'] != 'B0']
    objs = []
    for _ in range(rng.randint(2, 5)):
        c = rng.choice(kids)
        if c['name'] == 'HBase' and rng.random() < 0.7:
            continue
        if c['name'].startswith('Kid'):
            kw = {'tag': 't', 'kid%s_id' % c['name'][3:]: rng.randint(0, 9)}
        else:
            kw = {'tag': 't', 'hb_id': rng.randint(0, 9)}
        if rng.random() < 0.8:
            kw['width'] = rng.choice([1, 2, 3, 5])
        if rng.random() < 0.5:
            kw['note'] = rng.choice(['n/a', 'kid0', 'kid1', 'x', None, 'slow',
                                     'fast', 'None', 'null', '~', ''])
        if rng.random() < 0.4:
            kw['level'] = rng.choice([0, '0', 1, '1', 'x', '0.0', '00', ''])
        if rng.random() < 0.4:
            kw['ratio'] = rng.choice([1.5, '1.5', '1.50', 2.0, '15e-1', 'x'])
        if c.get('extra') and rng.random() < 0.6:
            import collections
            kw['_yatiml_extra'] = collections.OrderedDict(
                [('zextra', rng.choice([1, 'x', None]))])
        objs.append(m.classes[c['name']](**kw))
    ctx.count('defaults_family_values')
    # one document with all of them, then each alone (order of first use)
    run_value(ctx, spec, spec['doc_type'], objs)
    for o in objs:
        run_value(ctx, spec, ['cls', type(o).__name__], o)


def roster_family(rng):
    """An owner class with two attributes of one roster type (a list or dict
    of item objects), only the first of which is written in the keyed form
    (structural sweetener with its inverse savorizer)."""
    mode = rng.choice(['index', 'seq'])
    va = 'it_val' if rng.random() < 0.6 else None
    item = {'name': 'It', 'kind': 'plain', 'roster_item': True,
            'params': [{'name': 'it_key', 'type': 'str'},
                       {'name': 'it_val', 'type': 'int'}]}
    if rng.random() < 0.4:
        item['params'].append({'name': 'it_opt', 'type': 'str',
                               'default': 'd'})
    if mode == 'index':
        ptype = ['dict', 'str', ['cls', 'It']]
        sav = [['map_to_index', 'main', 'it_key', va]]
        swe = [['index_to_map', 'main', 'it_key', va]]
    else:
        ptype = ['list', ['cls', 'It']]
        sav = [['map_to_seq', 'main', 'it_key', va]]
        swe = [['seq_to_map', 'main', 'it_key', va]]
    owner = {'name': 'Own', 'kind': 'plain', 'roster': True,
             'params': [{'name': 'own_id', 'type': 'int'},
                        {'name': 'main', 'type': ptype},
                        {'name': 'spare', 'type': ptype}],
             'recognize': ['all', ['attr', 'own_id', None],
                           ['attr', 'main', None]],
             'savorize': sav, 'sweeten': swe}
    # a registered subclass that defines no hooks of its own: the base's
    # sweetener and savorizer run for its objects, once
    kid = {'name': 'Own2', 'kind': 'plain', 'bases': ['Own'],
           'params': [dict(q) for q in owner['params']] + [
               {'name': 'own2_x', 'type': 'int', 'default': 0}],
           'recognize': ['all', ['attr', 'own_id', None],
                         ['attr', 'main', None], ['attr', 'own2_x', None]]}
    return {'classes': [item, owner, kid],
            'doc_type': ['list', ['cls', 'Own']],
            'profile': 'roster-family'}, mode


def run_roster_family(ctx, rng):
    spec, mode = roster_family(rng)
    try:
        m = H.model_of(spec)
    except Exception as e:
        ctx.note('roster family: %r' % (e,))
        return
    spec = H.clean_spec(spec)
    It, Own = m.classes['It'], m.classes['Own']
    has_opt = any(p['name'] == 'it_opt' for p in spec['classes'][0]['params'])
    pool = []

    def items():
        out = []
        for k in rng.sample(['ka', 'kb', 'kc', 'kd'], rng.randint(0, 3)):
            if pool and rng.random() < 0.3:
                it = rng.choice(pool)       # the same item object again
            else:
                kw = {'it_key': k, 'it_val': rng.randint(0, 5)}
                if has_opt and rng.random() < 0.5:
                    kw['it_opt'] = rng.choice(['d', 'e'])
                it = It(**kw)
                pool.append(it)
            if any(x._v_args['it_key'] == it._v_args['it_key'] for x in out):
                continue
            out.append(it)
        if mode == 'index':
            return {x._v_args['it_key']: x for x in out}
        return out
    conts = []

    def cont():
        if conts and rng.random() < 0.5:
            return rng.choice(conts)        # the same container object again
        c = items()
        conts.append(c)
        return c
    Own2 = m.classes['Own2']
    owners = [Own(own_id=i, main=cont(), spare=cont())
              if rng.random() < 0.6 else
              Own2(own_id=i, main=cont(), spare=cont(), own2_x=i + 1)
              for i in range(rng.randint(1, 3))]
    ctx.count('roster_family_values')
    run_value(ctx, spec, spec['doc_type'], owners)
    run_value(ctx, spec, ['cls', type(owners[0]).__name__], owners[0])


def shared_plain(rng):
    """Plain data in which one list / dict object occurs more than once
    (dumped with an anchor and aliases; all uses are plain, so the alias
    mechanism of the known finding does not apply)."""
    sub = plain.rand_plain(rng, depth=1, classes=('look',), finite=True,
                           dates=False)
    if not isinstance(sub, (list, dict)) or not sub:
        sub = [1, 'x', [2]] if rng.random() < 0.5 else {'k': [1, 2]}
    shape = rng.randrange(5)
    if shape == 0:
        return [sub, sub]
    if shape == 1:
        return {'a': sub, 'b': [sub, 1]}
    if shape == 2:
        return {'pre': {'x': sub}, 'post': {'y': [sub]}}
    if shape == 3:
        return [[sub], {'k': sub}, sub]
    return {'a': [1, sub], 'b': sub}


def replay(ctx, case):
    m = H.model_of(case['spec'])
    run_value(ctx, case['spec'], case['type'],
              V.decode_value(m, case['value']))
