"""C17 - recognition errors point at the offending place.

Monitor: the text of every yatiml.RecognitionError observed at the load
boundary is parsed for "line N, column M" citations and quoted key names.

Strong claim (hierarchy-free unambiguous models): a valid document (block
style, so lines discriminate) is corrupted at exactly one generated site
(wrong scalar type, unknown enum member, misspelt key, dropped required key,
added unknown key); the corrupted text is composed once more with the loader
class to learn the marks of the site; if the load now fails, some cited
position must lie on the line of the corrupted node, of its key, or of the
start of the enclosing mapping, and for key corruptions the message must name
the key.

Weak claim (all models, all parseable documents of the C01 stream): every
RecognitionError cites at least one position, and every cited position lies
inside the document.
"""
import copy
import re

import yaml

import yatiml
from vlib import docs as D
from vlib import harness as H
from vlib import modelgen as G
from vlib import nodes as N
from vlib import scalars as S
from vlib import values as V
from vlib import workload as W
from checks import c18

PROPERTY = 'C17'
RULE = ('strong cases = (hierarchy-free unambiguous class model, valid block '
        'style document, one corruption site and kind in {wrong scalar type, '
        'unknown enum member, misspelt key, dropped required key, added '
        'key}); judged when the corrupted document fails to load. weak cases '
        '= (any generated model, any document: valid, 1-2 site mutants, '
        'tag-injected, empty, token soup, splices, cycles) whose load raises '
        'RecognitionError while stock PyYAML can compose the text. '
        'Non-trivial: a RecognitionError message was parsed and judged; '
        'distinct by (model, text).')
ASSUMPTIONS = [
    'positions are the "line N, column M" citations PyYAML marks print '
    '(1-based); "inside the document" = line within the text (or line 1 '
    'column 1 for an empty document / a node created by a savorizer) and '
    'column within that line plus one',
    'the enclosing mapping of a site is the nearest mapping node above it; '
    'for a site inside a list the lines of the list item path up to that '
    'mapping are not accepted',
    'a corruption that the model still admits (Union/Optional/Any position, '
    'optional attribute of a class with _yatiml_extra) is discarded, not '
    'judged',
    'errors raised by user code (constructors, recognisers, savorizers of the '
    'model) are judged for the weak claim only',
]


def requirements(tier):
    q = tier == 'quick'
    return {'strong_judged': 9000 if q else 120000,
            'strong_wrong_type': 2500 if q else 30000,
            'strong_misspelt_key': 1200 if q else 15000,
            'strong_dropped_key': 1200 if q else 15000,
            'strong_added_key': 1200 if q else 15000,
            'strong_enum_member': 150 if q else 2000,
            'weak_judged': 25000 if q else 300000,
            'positions_checked': 40000 if q else 500000}


POS = re.compile(r'line (\d+), column (\d+)')


def cited(msg):
    return [(int(a), int(b)) for a, b in POS.findall(msg)]


def inside(text, line, col):
    lines = text.split('\n')
    # PyYAML counts \r\n, \r, NEL, LS, PS as line breaks as well
    n = len(re.split(r'\r\n|[\n\r\x85  ]', text))
    if line == 1 and col == 1:
        return True
    if line < 1 or line > n + 1:
        return False
    return col >= 1 and col <= max(len(l) for l in re.split(
        r'\r\n|[\n\r\x85  ]', text)) + 2


def composable(text):
    try:
        yaml.compose(text, Loader=yaml.SafeLoader)
        return True
    except yaml.YAMLError:
        return False
    except RecursionError:
        return False
    except Exception:
        return False


# ---------------------------------------------------------------------------
# weak claim

def weak_case(ctx, spec, text, origin):
    m = H.model_of(spec)
    try:
        load = m.load_fn()
    except Exception:
        return
    kind, x = H.run_load(load, text)
    if kind != 'err' or not isinstance(x, yatiml.RecognitionError):
        ctx.count('weak_not_recognition_error')
        return
    if not composable(text):
        ctx.count('weak_unparseable')
        return
    msg = str(x)
    if 'is it registered?' in msg and not cited(msg):
        # an annotation names a class that was not given to load_function:
        # a defect of the program, there is no place in the document to cite
        ctx.count('weak_programmer_error_not_judged')
        return
    pos = cited(msg)
    case = {'kind': 'weak', 'spec': spec, 'text': text}
    ctx.count('weak_judged')
    feat = message_kind(msg)
    if not pos:
        ctx.violation(
            'C17 weak no-position-cited %s' % feat,
            'RecognitionError cites no position: %r (document %r)' % (
                msg[:300], text[:200]), case)
    for line, col in pos:
        ctx.count('positions_checked')
        if not inside(text, line, col):
            ctx.violation(
                'C17 weak position-outside-document %s' % feat,
                'cited line %d column %d is outside the document (%d lines): '
                '%r (document %r)' % (line, col, text.count('\n') + 1,
                                      msg[:300], text[:200]), case)
            break
    ctx.case(['weak', spec, text], True)


def message_kind(msg):
    """Mechanism-level class of a message (no names, no numbers)."""
    m = msg
    for pat, name in (
            ('Could not determine which of the following types', 'ambiguous'),
            ('contains itself via an alias', 'alias-cycle'),
            ('Missing attribute', 'missing-attribute'),
            ('which is not allowed here', 'extraneous-key'),
            ('Extraneous', 'extraneous-key'),
            ('Expected attribute', 'attribute-type'),
            ('is it registered', 'unregistered-type'),
            ("there's a tag here", 'tag-conflict'),
            ('Failed to recognize', 'failed-to-recognize'),
            ('Expected a string matching', 'string-matching'),
            ('Invalid value for a scalar', 'invalid-scalar'),
            ('Multiple things are allowed', 'multiple'),
            ('Expected', 'expected')):
        if pat in m:
            return name
    return 'other'


# ---------------------------------------------------------------------------
# strong claim

def node_at(root, spec, path):
    """yaml node at a spec path (parallel walk; same structure)."""
    node = root
    for step in path:
        if step[0] == 'i':
            node = node.value[step[1]]
        elif step[0] == 'k':
            node = node.value[step[1]][0]
        elif step[0] == 'v':
            node = node.value[step[1]][1]
        else:
            raise ValueError(step)
    return node


def enclosing_map_path(spec, path):
    for n in range(len(path) - 1, -1, -1):
        if D.get_at(spec, path[:n])[0] == 'map':
            return path[:n]
    return None


SWAPS = [N.s_int(1), N.s_str('x'), N.s_float(1.5), N.s_bool(True),
         N.s_null('null'), ['s', S.TAG_TS, '2001-12-14'],
         ['seq', [N.s_int(1)], S.TAG_SEQ],
         ['map', [[N.s_str('zz'), N.s_int(1)]], S.TAG_MAP]]


def class_mappings(m, spec, v, nspec):
    """(path, class name) of every mapping that is a plain class object."""
    out = []
    for p, s in D.paths(nspec):
        if s[0] != 'map':
            continue
        try:
            kind, sub = c18.value_at(v, nspec, p)
        except (c18.NoWalk, IndexError, KeyError, TypeError):
            continue
        if kind != 'value':
            continue
        cname = type(sub).__name__
        if getattr(sub, '_v_args', None) is not None and cname in m.cspecs \
                and not m.cspecs[cname].get('parsed'):
            out.append((p, cname))
    return out


ctx_count = [0]      # corruption rounds on a parameterless class's mapping


def corruptions(m, spec, v, nspec, rng):
    """Yield (kind, corrupted spec, site paths dict, key names)."""
    cms = class_mappings(m, spec, v, nspec)
    allp = list(D.paths(nspec))
    # 1 wrong scalar type / enum member
    cand = [(p, s) for p, s in allp if s[0] == 's' and p
            and p[-1][0] in ('v', 'i')]
    rng.shuffle(cand)
    for p, s in cand[:3]:
        try:
            kind, sub = c18.value_at(v, nspec, p)
        except (c18.NoWalk, IndexError, KeyError, TypeError):
            continue
        import enum
        if isinstance(sub, enum.Enum) and rng.random() < 0.7:
            new = N.s_str('verif_no_member')
            yield 'enum_member', D.set_at(nspec, p, new), p, None
            continue
        new = rng.choice([x for x in SWAPS if x[0] != 's' or x[1] != s[1]])
        yield 'wrong_type', D.set_at(nspec, p, new), p, None
    rng.shuffle(cms)
    # (the mapping of a parameterless class first, if there is one)
    cms.sort(key=lambda pc: pc[1] != 'Void0')
    for p, cname in cms[:3]:
        c = m.cspecs[cname]
        if cname == 'Void0':
            ctx_count[0] += 1
        node = D.get_at(nspec, p)
        params = {q['name']: q for q in c.get('params', [])}
        keys = [k[2] if k[0] == 's' else None for k, _ in node[1]]
        pkeys = [i for i, k in enumerate(keys)
                 if k is not None and (k in params or
                                       k.replace('-', '_') in params)]
        r = rng.random()
        if r < 0.35 and pkeys:
            i = rng.choice(pkeys)
            old = keys[i]
            new = old + 'x' if rng.random() < 0.5 else 'x' + old[1:] \
                if len(old) > 1 and old[0] != 'x' else old + 'q'
            if new in keys or new in params or \
                    new.replace('-', '_') in params:
                continue
            n2 = copy.deepcopy(node)
            n2[1][i][0] = N.s_str(new)
            yield 'misspelt_key', D.set_at(nspec, p, n2), \
                p + (('k', i),), [old, old.replace('-', '_'), new]
        elif r < 0.65:
            req = [i for i in pkeys if 'default' not in params.get(
                keys[i], params.get(keys[i].replace('-', '_'), {}))]
            if not req:
                continue
            i = rng.choice(req)
            n2 = copy.deepcopy(node)
            del n2[1][i]
            yield 'dropped_key', D.set_at(nspec, p, n2), p, \
                [keys[i], keys[i].replace('-', '_')]
        else:
            if c.get('extra'):
                continue
            newk = rng.choice(['verif_unknown', 'zzz', 'extra_thing', 'self',
                               'cls', 'args', 'gr\u00f6\u00dfe', 'h\u00f6he',
                               '\u952e', 'd\u00e9pth', 'a"b', 'a\\b', '{x}',
                               '%s', '2nd'])
            if newk in keys:
                continue
            knode = N.s_str(newk)
            if rng.random() < 0.12:
                # an unknown key that is no string
                knode = rng.choice([N.s_int(123), N.s_bool(True),
                                    ['s', S.TAG_TS, '2001-12-14'],
                                    N.s_float(1.5)])
                newk = knode[2]
            n2 = copy.deepcopy(node)
            i = rng.randint(0, len(n2[1]))
            # (a value that is a block collection starts on the next line:
            # the key's own line is what has to be cited)
            n2[1].insert(i, [knode, rng.choice([
                N.s_int(1), N.s_int(1), N.s_str('v'),
                ['seq', [N.s_int(1), N.s_int(2)], S.TAG_SEQ],
                ['map', [[N.s_str('zz'), N.s_int(1)]], S.TAG_MAP]])])
            # (a class that reads dashes as underscores may name the key in
            # the spelling it uses itself, as for dropped keys)
            yield 'added_key', D.set_at(nspec, p, n2), p + (('k', i),), \
                [newk, newk.replace('-', '_')]


def strong_case(ctx, spec, m, v, nspec, rng):
    try:
        load = m.load_fn()
    except Exception:
        return
    # the uncorrupted document must load (to the value it was made from)
    try:
        base = D.render(nspec, 'block')
    except (ValueError, RecursionError):
        return
    k, x = H.run_load(load, base)
    if k != 'ok' or not V.vsame(x, v):
        ctx.count('strong_base_document_not_valid')
        return
    ctx.count('strong_base_documents')
    for kind, cspec, site, names in corruptions(m, spec, v, nspec, rng):
        try:
            text = D.render(cspec, 'block')
        except (ValueError, RecursionError):
            continue
        judge_strong(ctx, spec, load, kind, cspec, site, names, text)


def judge_strong(ctx, spec, load, kind, cspec, site, names, text):
    case = {'kind': 'strong', 'spec': spec, 'ckind': kind, 'cspec': cspec,
            'site': [list(s) for s in site], 'names': names}
    k, x = H.run_load(load, text)
    if k == 'ok':
        ctx.count('strong_discarded_still_loads')
        return
    if not isinstance(x, yatiml.RecognitionError):
        ctx.count('strong_not_recognition_error')
        return
    try:
        root = N.compose_raw(load.loader, text)
    except yaml.YAMLError:
        ctx.count('strong_uncomposable')
        return
    try:
        node = node_at(root, cspec, site)
    except (IndexError, AttributeError, TypeError):
        ctx.count('strong_site_not_found')
        return
    allowed = {node.start_mark.line + 1}
    if site and site[-1][0] == 'v':
        kn = node_at(root, cspec, site[:-1] + (('k', site[-1][1]),))
        allowed.add(kn.start_mark.line + 1)
    if D.get_at(cspec, site)[0] == 'map' and kind == 'dropped_key':
        mp = site
    else:
        mp = enclosing_map_path(cspec, site)
    if mp is not None:
        allowed.add(node_at(root, cspec, mp).start_mark.line + 1)
    msg = str(x)
    pos = cited(msg)
    ctx.count('strong_judged')
    ctx.count('strong_' + kind)
    for line, col in pos:
        ctx.count('positions_checked')
    mk = message_kind(msg)
    if not any(line in allowed for line, _ in pos):
        ctx.violation(
            'C17 strong wrong-position corruption=%s message=%s' % (kind, mk),
            'corruption %s at lines %s; the error cites %s: %r (document %r)'
            % (kind, sorted(allowed), pos, msg[:400], text[:300]), case)
    if names and not any(('"%s"' % n) in msg or ("'%s'" % n) in msg
                         for n in names):
        ctx.violation(
            'C17 strong key-not-named corruption=%s message=%s' % (kind, mk),
            'corruption %s of key %s; the message does not name it: %r '
            '(document %r)' % (kind, names, msg[:400], text[:300]), case)
    ctx.case(['strong', spec, text], True)
    if len(ctx.samples) < 4:
        ctx.sample({'corruption': kind, 'site_lines': sorted(allowed),
                    'document': text[:300], 'message': msg[:300]}, kind)


def widen(spec, rng):
    """Give one or two plain classes 8-12 attributes (optional ints at the
    end): the diagnostics for missing/extraneous keys switch wording at 8."""
    plains = [c for c in spec['classes'] if c.get('kind', 'plain') == 'plain'
              and not c.get('parsed')]
    rng.shuffle(plains)
    for c in plains[:rng.randint(1, 2)]:
        pfx = c['name'].lower()
        have = len(c.get('params', []))
        for i in range(max(0, rng.randint(8, 12) - have)):
            c['params'].append({'name': '%s_w%d' % (pfx, i), 'type': 'int',
                                'default': i})


def add_void_class(spec, rng):
    """A class without any parameter as the type of a required attribute
    of one plain class: its mapping is empty, every key in it is unknown."""
    plains = [c for c in spec['classes'] if c.get('kind', 'plain') == 'plain'
              and not c.get('parsed') and not c.get('recognize')
              and not c.get('savorize') and not c.get('sweeten')
              and c.get('params')]
    if not plains or any(c['name'] == 'Void0' for c in spec['classes']):
        return
    c = rng.choice(plains)
    c['params'].insert(0, {'name': '%s_void' % c['name'].lower(),
                           'type': ['cls', 'Void0']})
    spec['classes'].insert(0, {'name': 'Void0', 'kind': 'plain',
                               'params': []})
    if 'order' in spec:
        spec['order'] = ['Void0'] + spec['order']


def hierarchy_free(spec):
    return all(not c.get('bases') for c in spec['classes'])


def shard(ctx):
    rng = ctx.rng
    # strong claim
    n = ctx.budget(9000, 120000)
    made = 0
    tries = 0
    while made < n and tries < n * 6:
        tries += 1
        spec = G.gen_model(rng, 'unamb')
        if not hierarchy_free(spec):
            continue
        if rng.random() < 0.3:
            widen(spec, rng)
        if rng.random() < 0.15:
            add_void_class(spec, rng)
        try:
            m = H.model_of(spec)
        except Exception:
            continue
        spec = H.clean_spec(spec)
        made += 1
        g = V.Gen(m, rng, ('look', 'uni'), finite=False)
        for _ in range(2):
            try:
                v = g.value(spec['doc_type'])
            except (V.NoValue, RecursionError):
                continue
            try:
                nspec = D.spec_of(D.proj(m, v, sweeten=True))
            except (ValueError, TypeError, RecursionError):
                continue
            strong_case(ctx, spec, m, v, nspec, rng)
    # weak claim
    for i in range(ctx.budget(4500, 60000)):
        profile = 'free' if rng.random() < 0.7 else 'unamb'
        st = W.Stream(ctx, profile, mutants=3, soup=1)
        spec, m = st.new_model()
        if spec is None:
            continue
        for text, meta in st.cases(spec, m, n_values=2):
            weak_case(ctx, spec, text, meta.get('origin'))


def replay(ctx, case):
    if case['kind'] == 'weak':
        weak_case(ctx, case['spec'], case['text'], 'replay')
        return
    m = H.model_of(case['spec'])
    load = m.load_fn()
    site = tuple(tuple(s) for s in case['site'])
    text = D.render(case['cspec'], 'block')
    judge_strong(ctx, case['spec'], load, case['ckind'], case['cspec'], site,
                 case['names'], text)
