"""C14 - yatiml.Node accessors behave like an ordered map and a typed scalar.

Monitor shape: history + executable sequential model.  Every operation is
applied to the real yatiml.Node and to an ordered-dict model; return values,
exceptions and the plain view of the wrapped node are compared after every
step.  Scalar laws (set_value/get_value, get_value vs. what a load constructs)
and remove_attributes_with_default_values are checked against PyYAML's own
scalar constructors as the reference.
"""
import itertools
import math
from collections import OrderedDict

import yaml

import yatiml
from vlib import nodes as N
from vlib import plain
from vlib import scalars as S

PROPERTY = 'C14'
RULE = ('(A) every sequence of up to 3 (quick) / 4 (thorough) operations out '
        'of 45 concrete has/get/set/remove/rename/has_attribute_type/is_empty '
        'calls on a 3-key mapping node (exhaustive) and random sequences up to '
        'length 30 incl. make_mapping and node-valued set_attribute, compared '
        'step by step with an ordered-dict model; (B) is_scalar/is_mapping/'
        'is_sequence partition on generated nodes; (C) set_value(v) then '
        'get_value()/is_scalar(type(v)) for adversarial scalars on nodes of '
        'every kind; (D) get_value() on every plain spelling over the number '
        'alphabet up to length 5 (quick) / 6 (thorough) and a look-alike pool vs. the value PyYAML '
        'constructs for the tag the live loader resolves; (E) all (default, '
        'value) pairs over pools of built-in scalars for '
        'remove_attributes_with_default_values. Non-trivial: a case that '
        'reached at least one mutating call or a non-str scalar; distinct by '
        'case content.')
ASSUMPTIONS = [
    'PyYAML SafeConstructor scalar constructors define "what a load would '
    'construct"',
    'get_attribute on an absent key may raise SeasoningError (pinned by '
    'tests/test_helpers.py::test_get_attribute) or KeyError (docstring)',
    'rename_attribute onto an existing key leaves the "distinct keys" domain '
    'of the statement: the sequence is not judged beyond that point',
    'set_value is judged on nodes with core-schema tags (on a class-tagged '
    'node yatiml keeps the tag on purpose)',
    'remove_attributes_with_default_values: when value and default have '
    'different Python types (or are NaN) only "does not raise, removes nothing '
    'else, keeps order" is demanded',
]


def EXHAUSTIVE(tier):
    return True


def requirements(tier):
    q = tier == 'quick'
    return {'op_sequences': 90000 if q else 4000000,
            'ops_applied': 300000 if q else 15000000,
            'random_sequences': 5000 if q else 50000,
            'classify_nodes': 300,
            'set_get_cases': 1200,
            'spelling_cases': 500000 if q else 8000000,
            'spelling_nonstr': 3000,
            'default_pairs': 3000}


D_CORE = 'tag:yaml.org,2002:'
KEYS = ['a', 'b_c', 'd-e']
ABSENT = 'zz'
NEWNAMES = ['n1', 'b-c']
SETVALS = [7, 'v', None]
TYPES = {'int': int, 'str': str, 'list': list, 'float': float, 'bool': bool,
         'none': None, 'dict': dict}


def initial_spec():
    return ['map', [[N.s_str('a'), N.s_int(1)],
                    [N.s_str('b_c'), N.s_str('x')],
                    [N.s_str('d-e'), ['seq', [N.s_int(1), N.s_int(2)]]]]]


def all_ops():
    ops = []
    ks = KEYS + [ABSENT]
    for k in ks:
        ops.append(['has', k])
    for k in ks:
        ops.append(['get', k])
    for k in [KEYS[0], KEYS[1], ABSENT, 'n1']:
        for i in range(len(SETVALS)):
            ops.append(['set', k, ['py', i]])
    for k in ks:
        ops.append(['rem', k])
    for k in ks:
        for nn in NEWNAMES:
            ops.append(['ren', k, nn])
    for k in ks:
        for t in ('int', 'str', 'list'):
            ops.append(['typ', k, t])
    ops.append(['empty'])
    return ops


OPS = all_ops()


def tag_for(v):
    if v is None:
        return S.TAG_NULL
    if isinstance(v, bool):
        return S.TAG_BOOL
    if isinstance(v, int):
        return S.TAG_INT
    if isinstance(v, float):
        return S.TAG_FLOAT
    if isinstance(v, str):
        return S.TAG_STR
    raise TypeError(v)


def decode_val(v):
    """op value encodings -> python value / node."""
    if v[0] == 'py':
        return SETVALS[v[1]]
    if v[0] == 'lit':
        return plain_dec(v[1])
    if v[0] == 'node':
        return N.mk(v[1])
    raise ValueError(v)


def plain_enc(v):
    if isinstance(v, float):
        return {'f': repr(v)}
    if isinstance(v, str) and plain.has_surrogate(v):
        return {'s': [ord(c) for c in v]}
    return v


def plain_dec(v):
    if isinstance(v, dict):
        if 'f' in v:
            return float(v['f'])
        return ''.join(chr(c) for c in v['s'])
    return v


def same_scalar(a, b):
    if type(a) is not type(b):
        return False
    if isinstance(a, float):
        return plain.same(a, b)
    return a == b


def desc_matches(node, desc):
    """Does the real value node correspond to the model's descriptor?"""
    if desc[0] == 'view':
        return N.view(node) == desc[1]
    v = desc[1]
    if not isinstance(node, yaml.ScalarNode):
        return False
    if node.tag != tag_for(v):
        return False
    try:
        got = yatiml.Node(node).get_value()
    except Exception:
        return False
    return same_scalar(got, v)


def model_vs_node(model, ynode):
    if not isinstance(ynode, yaml.MappingNode):
        return 'wrapped node is no longer a mapping'
    keys = [k.value for k, _ in ynode.value]
    if keys != list(model):
        return 'keys %r, model %r' % (keys, list(model))
    for (kn, vn), (mk_, desc) in zip(ynode.value, model.items()):
        if not isinstance(kn, yaml.ScalarNode) or kn.tag != S.TAG_STR:
            return 'key node %r is not a str scalar' % (kn,)
        if not desc_matches(vn, desc):
            return 'value of %r is %r, model says %r' % (
                mk_, N.view(vn), desc)
    return None


def run_sequence(ctx, seq, origin, shared=False):
    """Apply seq to a fresh node and the model. seq: list of op encodings.
    shared: two keys hold the SAME scalar node object, as they do in a
    composed document with an anchor and an alias ('a: &x 1' / 'b_c: *x');
    the map stays a map of independent values."""
    spec = initial_spec()
    if shared:
        spec[1][1][1] = list(spec[1][0][1])
    ynode = N.mk(spec)
    if shared:
        ynode.value[1] = (ynode.value[1][0], ynode.value[0][1])
        ctx.count('sequences_on_shared_scalar_nodes')
    node = yatiml.Node(ynode)
    model = OrderedDict()
    for k, v in spec[1]:
        model[k[2]] = ('view', N.view(N.mk(v)))
    case = {'kind': 'seq', 'ops': seq, 'shared': shared}
    mutated = False
    for step, op in enumerate(seq):
        ctx.count('ops_applied')
        name = op[0]
        where = 'op %d %s' % (step, name)
        try:
            if name == 'has':
                got = node.has_attribute(op[1])
                want = op[1] in model
                if got is not want:
                    ctx.violation('C14 map-model has_attribute wrong-result',
                                  '%s(%r) returned %r, model %r' % (
                                      where, op[1], got, want), case)
                    return
            elif name == 'get':
                try:
                    got = node.get_attribute(op[1])
                except (yatiml.SeasoningError, KeyError):
                    if op[1] in model:
                        ctx.violation(
                            'C14 map-model get_attribute raised-for-present',
                            '%s(%r) raised for a present key' % (
                                where, op[1]), case)
                        return
                else:
                    if op[1] not in model:
                        ctx.violation(
                            'C14 map-model get_attribute returned-for-absent',
                            '%s(%r) returned %r for an absent key' % (
                                where, op[1], got), case)
                        return
                    if not isinstance(got, yatiml.Node) or not desc_matches(
                            got.yaml_node, model[op[1]]):
                        ctx.violation(
                            'C14 map-model get_attribute wrong-node',
                            '%s(%r) returned %r, model %r' % (
                                where, op[1], N.view(got.yaml_node),
                                model[op[1]]), case)
                        return
            elif name == 'set':
                val = decode_val(op[2])
                node.set_attribute(op[1], val)
                mutated = True
                if isinstance(val, yaml.Node):
                    model[op[1]] = ('view', N.view(val))
                else:
                    model[op[1]] = ('py', val)
            elif name == 'rem':
                node.remove_attribute(op[1])
                mutated = True
                model.pop(op[1], None)
            elif name == 'ren':
                old, new = op[1], op[2]
                if old in model and new in model and old != new:
                    ctx.count('sequence_left_domain_duplicate_key')
                    break
                node.rename_attribute(old, new)
                mutated = True
                if old in model:
                    model = OrderedDict(
                        (new if k == old else k, v) for k, v in model.items())
            elif name == 'typ':
                t = TYPES[op[2]]
                got = node.has_attribute_type(op[1], t)
                if op[1] not in model:
                    want = False
                else:
                    desc = model[op[1]]
                    if desc[0] == 'py':
                        vt = type(desc[1]) if desc[1] is not None else None
                        want = (vt is t) if t is not None else desc[1] is None
                    else:
                        v = desc[1]
                        if t is list:
                            want = v[0] == 'seq'
                        elif t is dict:
                            want = v[0] == 'map'
                        else:
                            want = v[0] == 's' and v[1] == tag_for(
                                {int: 0, str: '', float: 0.0, bool: True,
                                 None: None}[t])
                if got is not want:
                    ctx.violation(
                        'C14 map-model has_attribute_type wrong-result',
                        '%s(%r, %s) returned %r, model %r' % (
                            where, op[1], op[2], got, want), case)
                    return
            elif name == 'empty':
                got = node.is_empty()
                if got is not (len(model) == 0):
                    ctx.violation('C14 map-model is_empty wrong-result',
                                  '%s returned %r with %d keys' % (
                                      where, got, len(model)), case)
                    return
            elif name == 'mkmap':
                node.make_mapping()
                mutated = True
                model = OrderedDict()
        except Exception as e:      # noqa
            ctx.violation(
                'C14 map-model %s raised %s' % (name, type(e).__name__),
                '%s %r raised %s: %s' % (where, op, type(e).__name__, e), case)
            return
        if not (node.is_mapping() and not node.is_scalar()
                and not node.is_sequence()):
            ctx.violation('C14 classify mapping-not-classified-as-mapping',
                          'after %s the node is not (only) a mapping' % where,
                          case)
            return
        bad = model_vs_node(model, node.yaml_node)
        if bad:
            ctx.violation('C14 map-model state-diverged after=%s' % name,
                          'after %s %r: %s' % (where, op, bad), case)
            return
    ctx.case(case, mutated)
    if origin == 'random' and len(ctx.samples) < 2:
        ctx.sample({'kind': 'op-sequence', 'ops': seq,
                    'final_keys': list(model)}, 'seq')


def random_op(rng):
    r = rng.random()
    keys = KEYS + [ABSENT, 'n1', 'b-c', 'q', '']
    k = rng.choice(keys)
    if r < 0.1:
        return ['has', k]
    if r < 0.2:
        return ['get', k]
    if r < 0.5:
        c = rng.random()
        if c < 0.6:
            v = rng.choice([
                0, 1, -5, 2**70, 1.5, -0.0, 1e22, math.inf, -math.inf,
                True, False, None, '', 'x', 'true', '1', '1.5', 'a\nb',
                '\u00e9', 'null'])
            return ['set', k, ['lit', plain_enc(v)]]
        if c < 0.8:
            return ['set', k, ['node', rng.choice([
                N.s_str('nodeval'), N.s_int(5), ['seq', [N.s_int(1)]],
                ['map', [[N.s_str('i'), N.s_null()]]],
                ['s', '!Custom', 'c'],
                # collections that carry a tag of their own
                ['seq', [N.s_int(1)], D_CORE + 'omap'],
                ['seq', [], '!Points'],
                ['map', [[N.s_str('i'), N.s_null()]], D_CORE + 'set'],
                ['map', [[N.s_str('x'), N.s_int(1)]], '!Point'],
                ['seq', [N.s_int(1)], D_CORE + 'map'],
                ['map', [], D_CORE + 'seq']])]]
        return ['set', k, ['py', rng.randrange(len(SETVALS))]]
    if r < 0.62:
        return ['rem', k]
    if r < 0.8:
        return ['ren', k, rng.choice(keys)]
    if r < 0.93:
        return ['typ', k, rng.choice(sorted(TYPES))]
    if r < 0.98:
        return ['empty']
    return ['mkmap']


# ---------------------------------------------------------------------------
# B: classification

def gen_node_specs(rng, n):
    out = []
    tags = [S.TAG_STR, S.TAG_INT, S.TAG_FLOAT, S.TAG_BOOL, S.TAG_NULL,
            S.TAG_TS, '!Foo', S.TAG_MAP, S.TAG_SEQ, 'tag:yaml.org,2002:binary']
    for _ in range(n):
        r = rng.random()
        if r < 0.5:
            out.append(['s', rng.choice(tags), rng.choice(
                ['', '1', 'x', 'true', '1.5', '~', '2001-01-01'])])
        elif r < 0.75:
            out.append(['seq', [N.s_int(1)] * rng.randint(0, 2),
                        rng.choice([S.TAG_SEQ, '!Foo', S.TAG_MAP])])
        else:
            out.append(['map', [[N.s_str('k'), N.s_int(1)]] * rng.randint(
                0, 1), rng.choice([S.TAG_MAP, '!Foo', S.TAG_SEQ])])
    return out


def check_classify(ctx, spec):
    ctx.count('classify_nodes')
    node = yatiml.Node(N.mk(spec))
    case = {'kind': 'classify', 'spec': spec}
    try:
        flags = (node.is_scalar(), node.is_mapping(), node.is_sequence())
    except Exception as e:
        ctx.violation('C14 classify raised %s' % type(e).__name__,
                      'is_* raised %s on %r' % (e, spec), case)
        return
    want = (spec[0] == 's', spec[0] == 'map', spec[0] == 'seq')
    if flags != want:
        ctx.violation('C14 classify wrong-partition kind=%s' % spec[0],
                      'is_scalar/is_mapping/is_sequence = %r for %r' % (
                          flags, spec), case)
    typed = {str: S.TAG_STR, int: S.TAG_INT, float: S.TAG_FLOAT,
             bool: S.TAG_BOOL, None: S.TAG_NULL}
    for t, tag in typed.items():
        try:
            got = node.is_scalar(t)
        except Exception as e:
            ctx.violation('C14 classify typed-is_scalar raised %s'
                          % type(e).__name__, '%s' % e, case)
            return
        want_t = spec[0] == 's' and spec[1] == tag
        if got is not want_t:
            ctx.violation('C14 classify typed-is_scalar wrong',
                          'is_scalar(%r) = %r for %r' % (t, got, spec), case)
    ctx.case(case, True)


# ---------------------------------------------------------------------------
# C: set_value / get_value

def check_set_get(ctx, spec, v):
    ctx.count('set_get_cases')
    case = {'kind': 'setget', 'spec': spec, 'value': plain_enc(v)}
    node = yatiml.Node(N.mk(spec))
    try:
        node.set_value(v)
        got = node.get_value()
        typed = node.is_scalar(type(v) if v is not None else None)
        anyk = node.is_scalar()
    except Exception as e:
        ctx.violation('C14 set_value/get_value raised %s type=%s' % (
            type(e).__name__, type(v).__name__),
            'set_value(%r) then get_value() raised %s: %s' % (
                v, type(e).__name__, e), case)
        return
    if not same_scalar(got, v):
        ctx.violation('C14 set_value/get_value value-differs type=%s'
                      % type(v).__name__,
                      'set_value(%r); get_value() -> %r' % (v, got), case)
    if not typed or not anyk:
        ctx.violation('C14 set_value is_scalar(type(v)) false type=%s'
                      % type(v).__name__,
                      'after set_value(%r) is_scalar(type(v)) = %r' % (
                          v, typed), case)
    ctx.case(case, not isinstance(v, str))


# ---------------------------------------------------------------------------
# D: get_value on parsed spellings

class Env:
    def __init__(self):
        self.load = yatiml.load_function()
        self.loader_cls = self.load.loader
        ldr = self.loader_cls('')
        self.resolve = ldr.resolve
        self.ctor = ldr        # a live loader instance is also a constructor


_env = None


def get_env():
    global _env
    if _env is None:
        _env = Env()
    return _env


VALUE_TAGS = (S.TAG_STR, S.TAG_INT, S.TAG_FLOAT, S.TAG_BOOL, S.TAG_NULL)


def check_spelling(ctx, env, s):
    tag = env.resolve(yaml.ScalarNode, s, (True, False))
    ctx.count('spelling_cases')
    if tag not in VALUE_TAGS:
        ctx.case(['spell', s], False)
        return
    ynode = N.mk(['s', tag, s])
    try:
        want = env.ctor.construct_object(N.mk(['s', tag, s]), deep=True)
    except Exception:
        ctx.count('spelling_pyyaml_cannot_construct')
        ctx.case(['spell', s], False)
        return
    case = {'kind': 'spelling', 's': s}
    if tag != S.TAG_STR:
        ctx.count('spelling_nonstr')
    try:
        got = yatiml.Node(ynode).get_value()
    except Exception as e:
        ctx.violation(
            'C14 get_value raised %s tag=%s feature=%s' % (
                type(e).__name__, tag.rsplit(':', 1)[-1], spell_feature(s)),
            'get_value() on parsed scalar %r (%s) raised %s: %s; a load '
            'constructs %r' % (s, tag, type(e).__name__, e, want), case)
        ctx.case(case, True)
        return
    if not same_scalar(got, want):
        ctx.violation(
            'C14 get_value differs-from-load tag=%s feature=%s' % (
                tag.rsplit(':', 1)[-1], spell_feature(s)),
            'get_value() on parsed scalar %r (%s) -> %r; a load constructs %r'
            % (s, tag, got, want), case)
    ctx.case(case, tag != S.TAG_STR)


EXPLICIT = [
    (S.TAG_BOOL, ['yes', 'No', 'ON', 'off', 'y', 'N', 'true', 'TRUE', 'False',
                  'Yes', 'tRue', 'maybe', '', '1', '0']),
    (S.TAG_NULL, ['~', 'null', 'Null', 'NULL', '', 'x', '0', 'None']),
    (S.TAG_INT, ['12', '0x1F', '017', '1_000', '1:30', '+7', '-0', 'abc', '',
                 '1.5', '0o17', '0b101', ' 3']),
    (S.TAG_FLOAT, ['1.5', '12', '.inf', '-.INF', '.nan', '1e3', '1:30.5',
                   '1_0.5', 'abc', '', '0x1F', 'inf', 'nan']),
    (S.TAG_STR, ['12', 'true', '~', '', 'x y']),
]


def check_explicit(ctx, env, tag, s):
    """A scalar that carries an explicit core tag: a load constructs what
    PyYAML's constructor for that tag makes of the text (or rejects the
    document); get_value() on the node must agree."""
    ctx.count('explicit_tag_cases')
    text = '!<%s> "%s"\n' % (tag, s)
    try:
        want = env.load(text)
        lerr = None
    except Exception as e:      # noqa
        want, lerr = None, e
    case = {'kind': 'explicit', 'tag': tag, 's': s}
    short = tag.rsplit(':', 1)[-1]
    ynode = N.mk(['s', tag, s])
    try:
        got = yatiml.Node(ynode).get_value()
        gerr = None
    except Exception as e:      # noqa
        got, gerr = None, e
    # asking again gives the same answer, and the answer follows the node:
    # a hook may edit node.yaml_node in place between two reads
    try:
        got2 = yatiml.Node(ynode).get_value()
        gerr2 = None
    except Exception as e:      # noqa
        got2, gerr2 = None, e
    if type(gerr2) is not type(gerr) or (
            gerr is None and not same_scalar(got, got2)):
        ctx.violation(
            'C14 get_value second-read-differs tag=%s' % short,
            'get_value() twice on !!%s %r: first %r / %s, then %r / %s' % (
                short, s, got, type(gerr).__name__, got2,
                type(gerr2).__name__), case)
    ynode.tag, ynode.value = S.TAG_INT, '12'
    try:
        got3 = yatiml.Node(ynode).get_value()
    except Exception as e:      # noqa
        got3 = e
    if got3 != 12 or type(got3) is not int:
        ctx.violation(
            'C14 get_value stale-after-node-edit tag=%s' % short,
            'after reading !!%s %r the node was edited in place to !!int 12; '
            'get_value() gives %r' % (short, s, got3), case)
    if lerr is not None:
        # the load rejects the document: get_value() has nothing to agree
        # with, but must not raise anything but RecognitionError
        ctx.count('explicit_tag_load_rejects')
        if gerr is not None and not isinstance(gerr, yatiml.RecognitionError):
            ctx.violation(
                'C14 get_value raised %s tag=%s explicit-tag' % (
                    type(gerr).__name__, short),
                'get_value() on !!%s %r raised %s: %s (a load rejects the '
                'document with %s)' % (short, s, type(gerr).__name__, gerr,
                                       type(lerr).__name__), case)
        ctx.case(case, True)
        return
    if gerr is not None:
        ctx.violation(
            'C14 get_value raised %s tag=%s explicit-tag' % (
                type(gerr).__name__, short),
            'get_value() on !!%s %r raised %s: %s; a load constructs %r' % (
                short, s, type(gerr).__name__, gerr, want), case)
    elif not same_scalar(got, want):
        ctx.violation(
            'C14 get_value differs-from-load tag=%s explicit-tag' % short,
            'get_value() on !!%s %r -> %r; a load constructs %r' % (
                short, s, got, want), case)
    ctx.case(case, True)


def spell_feature(s):
    b = s.lstrip('+-')
    if b[:2] in ('0x', '0X'):
        return 'hex'
    if b[:2] in ('0b', '0B'):
        return 'binary'
    if ':' in s:
        return 'sexagesimal'
    if '.inf' in s.lower():
        return 'inf'
    if '.nan' in s.lower():
        return 'nan'
    if len(b) > 1 and b[0] == '0' and b.replace('_', '').isdigit():
        return 'octal'
    if '_' in s:
        return 'underscore'
    return 'other'


# ---------------------------------------------------------------------------
# E: remove_attributes_with_default_values

DEFAULTS = [0, 1, -1, 42, 31, 15, 90, 1000, 2**70, 1.5, 1.0, 42.0, 0.0, -0.0,
            1e5, 1e22, math.inf, -math.inf, math.nan, True, False, None, 'x',
            '', '1', '1.5', 'true', 'null', '0x1F', '.inf', 'a b']
VALUE_SPELLINGS = [
    (S.TAG_INT, ['0', '1', '-1', '42', '0x1F', '017', '1_000', '1:30', '+1',
                 '0b1111', '1180591620717411303424', '31', '15', '90']),
    (S.TAG_FLOAT, ['1.5', '1.', '.5', '1e5', '1E5', '1.0', '42.0', '0.0',
                   '-0.0', '.inf', '-.inf', '+.INF', '.nan', '.NaN', '1e22',
                   '1.0e+22', '100000.0', '1.5e0']),
    (S.TAG_BOOL, ['true', 'True', 'TRUE', 'false', 'False', 'FALSE', 'yes',
                  'no', 'on', 'off', 'Y', 'n']),
    (S.TAG_NULL, ['', '~', 'null', 'Null', 'NULL']),
    (S.TAG_STR, ['x', '', '1', '1.5', 'true', 'null', '0x1F', '.inf', 'a b',
                 'X', ' x']),
]


def make_default_class(defaults, overrides, variant=None):
    """Class with three defaulted parameters (and one required)."""
    ns = {}
    src = ('class K:\n'
           '    def __init__(self, req, p0=D[0], p1=D[1], p2=D[2]):\n'
           '        self.req = req\n'
           '        self.p0 = p0\n'
           '        self.p1 = p1\n'
           '        self.p2 = p2\n')
    if variant == 'new':
        # a class with a __new__ of its own (instance cache, interning):
        # the defaults are still those of __init__
        src += ('    def __new__(cls, *args, **kwargs):\n'
                '        return super().__new__(cls)\n')
    elif variant == 'new-named':
        src += ('    def __new__(cls, req=None, p0=\'other\', p1=-99, '
                'p2=None):\n'
                '        return super().__new__(cls)\n')
    elif variant == 'meta':
        src = ('class Meta(type):\n'
               '    def __call__(cls, *args, **kwargs):\n'
               '        return super().__call__(*args, **kwargs)\n'
               + src.replace('class K:', 'class K(metaclass=Meta):'))
    ns['D'] = defaults
    exec(src, ns)
    K = ns['K']
    if overrides:
        K._yatiml_defaults = dict(overrides)
    return K


def check_defaults(ctx, env, d_idx, o_idx, vals, o2_idx=None):
    """d_idx: indices into DEFAULTS for p0..p2; o_idx: {param: DEFAULTS idx};
    vals: [(tag, spelling) or None] for p0..p2.  With o2_idx a subclass that
    inherits __init__ and has its own _yatiml_defaults is judged first, then
    the class itself, then the subclass again (state shared between classes
    that share a constructor would show)."""
    ctx.count('default_pairs')
    defaults = [DEFAULTS[i] for i in d_idx]
    overrides = {k: DEFAULTS[i] for k, i in o_idx.items()}
    variant = [None, None, 'new', 'new-named', 'meta'][
        (sum(d_idx) + len(vals)) % 5]
    K = make_default_class(defaults, overrides, variant)
    if variant:
        ctx.count('default_classes_with_new_or_metaclass')
    eff = {'p%d' % i: overrides.get('p%d' % i, defaults[i]) for i in range(3)}
    case = {'kind': 'defaults', 'd': d_idx, 'o': o_idx, 'vals': vals,
            'o2': o2_idx}
    if o2_idx is None:
        judge_defaults(ctx, env, K, eff, vals, case, '')
        return
    Sub = type('Sub', (K,), {})
    over2 = {k: DEFAULTS[i] for k, i in o2_idx.items()}
    Sub._yatiml_defaults = dict(over2)
    eff2 = {'p%d' % i: over2.get('p%d' % i, defaults[i]) for i in range(3)}
    ctx.count('default_family_cases')
    judge_defaults(ctx, env, Sub, eff2, vals, case, ' class=subclass-first')
    judge_defaults(ctx, env, K, eff, vals, case, ' class=base-after-subclass')
    judge_defaults(ctx, env, Sub, eff2, vals, case,
                   ' class=subclass-after-base')
    # a subclass that is looked at for the first time after its base class
    Late = type('Late', (K,), {})
    Late._yatiml_defaults = dict(over2)
    judge_defaults(ctx, env, Late, eff2, vals, case,
                   ' class=new-subclass-after-base')
    if dict(getattr(Sub, '_yatiml_defaults')) != over2 or (
            overrides and dict(K._yatiml_defaults) != overrides):
        ctx.violation('C14 remove_defaults modified-_yatiml_defaults',
                      '_yatiml_defaults of the classes changed: %r / %r' % (
                          getattr(K, '_yatiml_defaults', None),
                          Sub._yatiml_defaults), case)


def judge_defaults(ctx, env, K, eff, vals, case, label):
    pairs = [[N.s_str('req'), N.s_str('r')]]
    for i, tv in enumerate(vals):
        if tv is not None:
            pairs.append([N.s_str('p%d' % i), ['s', tv[0], tv[1]]])
    pairs.append([N.s_str('other'), N.s_int(5)])
    spec = ['map', pairs]
    node = yatiml.Node(N.mk(spec))
    try:
        node.remove_attributes_with_default_values(K)
    except Exception as e:
        ctx.violation(
            'C14 remove_defaults raised %s' % type(e).__name__,
            'remove_attributes_with_default_values raised %s: %s for values '
            '%r defaults %r' % (type(e).__name__, e, vals, eff), case)
        ctx.case(case, True)
        return
    after = N.view(node.yaml_node)
    kept = [k[2] for k, _ in after[1]]
    # order and identity of what is kept
    before_keys = [p[0][2] for p in pairs]
    if [k for k in before_keys if k in kept] != kept:
        ctx.violation('C14 remove_defaults order-or-extra-keys',
                      'keys after %r, before %r' % (kept, before_keys), case)
        return
    for k, v in after[1]:
        orig = [p[1] for p in pairs if p[0][2] == k[2]][0]
        if v != orig:
            ctx.violation('C14 remove_defaults value-changed',
                          'attribute %r changed from %r to %r' % (
                              k[2], orig, v), case)
            return
    for fixed in ('req', 'other'):
        if fixed not in kept:
            ctx.violation('C14 remove_defaults removed-non-defaulted',
                          'attribute %r has no default but was removed'
                          % fixed, case)
            return
    for i, tv in enumerate(vals):
        if tv is None:
            continue
        name = 'p%d' % i
        d = eff[name]
        try:
            v = env.ctor.construct_object(N.mk(['s', tv[0], tv[1]]), deep=True)
        except Exception:
            ctx.count('defaults_pyyaml_cannot_construct')
            continue
        removed = name not in kept
        if isinstance(v, float) and math.isnan(v) or \
                isinstance(d, float) and math.isnan(d):
            ctx.count('defaults_unspecified_nan')
            continue
        if type(v) is type(d):
            want = (v == d)
            if isinstance(v, float) and v == 0.0 and math.copysign(
                    1, v) != math.copysign(1, d):
                ctx.count('defaults_unspecified_signed_zero')
                continue
            if removed is not want:
                ctx.violation(
                    'C14 remove_defaults %s type=%s feature=%s%s' % (
                        'removed-unequal' if removed else 'kept-equal',
                        type(d).__name__, spell_feature(tv[1]), label),
                    'attribute %s with value %r (%s %r) and default %r was %s'
                    % (name, v, tv[0], tv[1], d,
                       'removed' if removed else 'kept'), case)
                return
        elif {type(v), type(d)} == {int, float}:
            # 1 vs 1.0: whether these are "equal" is left open
            ctx.count('defaults_unspecified_mixed_types')
        else:
            # values of different YAML types (bool vs number, str vs
            # anything, null vs anything) are never equal: dropping the
            # attribute would bring back a value of another type on loading
            ctx.count('defaults_mixed_types_judged')
            if removed:
                ctx.violation(
                    'C14 remove_defaults removed-unequal value-type=%s '
                    'default-type=%s' % (type(v).__name__, type(d).__name__),
                    'attribute %s with value %r (%s %r) was removed although '
                    'its default %r is of another type' % (
                        name, v, tv[0], tv[1], d), case)
                return
    ctx.case(case, True)


# ---------------------------------------------------------------------------

def shard(ctx):
    env = get_env()
    from vlib import repotests
    repotests.run(ctx, 'C14', ['node-set-has'])
    # A exhaustive
    L = ctx.pick(3, 4)
    idx = 0
    for n in range(1, L + 1):
        for tup in itertools.product(range(len(OPS)), repeat=n):
            mine = ctx.mine(idx)
            idx += 1
            if not mine:
                continue
            ctx.count('op_sequences')
            run_sequence(ctx, [OPS[i] for i in tup], 'exhaustive')
            if n <= 2 or idx % 3 == 0:
                run_sequence(ctx, [OPS[i] for i in tup], 'exhaustive', True)
    # A random
    for _ in range(ctx.budget(8000, 80000)):
        seq = [random_op(ctx.rng) for _ in range(ctx.rng.randint(1, 30))]
        ctx.count('random_sequences')
        run_sequence(ctx, seq, 'random', ctx.rng.random() < 0.3)
    # B
    for spec in gen_node_specs(ctx.rng, ctx.budget(600, 6000)):
        check_classify(ctx, spec)
    # C
    vals = (plain.STR_LOOKALIKE + plain.STR_UNICODE + plain.STR_SURROGATE
            + plain.INTS + plain.FLOATS + plain.NONFINITE
            + [True, False, None])
    bases = [N.s_str('old'), N.s_int(1), N.s_null(), N.s_bool(True),
             N.s_float(1.5), ['seq', [N.s_int(1)]],
             ['map', [[N.s_str('k'), N.s_int(1)]]]]
    k = 0
    for v in vals:
        for b in bases:
            if ctx.mine(k):
                check_set_get(ctx, b, v)
            k += 1
    # D
    k = 0
    for n in range(0, ctx.pick(6, 7)):
        for tup in itertools.product('019+-.eE_:xnaf', repeat=n):
            if ctx.mine(k):
                check_spelling(ctx, env, ''.join(tup))
            k += 1
    extra = [s for s in plain.STR_LOOKALIKE if '\n' not in s and '\r' not in s]
    extra += ['0x1F', '0X1f', '-0x1F', '0b101', '017', '0o17', '1_000',
              '1:30', '1:30:15', '+12', '.inf', '-.inf', '+.inf', '.Inf',
              '.NaN', '.nan', '.NAN', '1e5', '1E-5', '+1.5e+3', '0.', '.0',
              'TRUE', 'True', 'FALSE', '~', 'null', 'Null', '', '0_1', '1_',
              '0xdead_beef', '00', '09', '1__0', '0b_1', '-0b11', '+0x_F',
              '9223372036854775808', '-.5', '1_0.5']
    k = 0
    for tag, texts in EXPLICIT:
        for t in texts:
            k += 1
            if ctx.mine(k):
                check_explicit(ctx, env, tag, t)
    for i, s in enumerate(extra):
        if ctx.mine(i):
            check_spelling(ctx, env, s)
    if ctx.shard == 0:
        ctx.sample({'kind': 'spelling', 's': '0x1F', 'resolved': env.resolve(
            yaml.ScalarNode, '0x1F', (True, False))}, 'spelling')
    # E: all (default, value) pairs, one defaulted attribute at a time,
    # plus random triples with overrides
    k = 0
    for di in range(len(DEFAULTS)):
        for tag, spells in VALUE_SPELLINGS:
            for sp in spells:
                if ctx.mine(k):
                    check_defaults(ctx, env, [di, 0, 0], {},
                                   [[tag, sp], None, None])
                    check_defaults(ctx, env, [0, 1, 2], {'p1': di},
                                   [None, [tag, sp], None])
                k += 1
    flat = [[t, sp] for t, sps in VALUE_SPELLINGS for sp in sps]
    for _ in range(ctx.budget(3000, 60000)):
        d_idx = [ctx.rng.randrange(len(DEFAULTS)) for _ in range(3)]
        o_idx = {}
        if ctx.rng.random() < 0.4:
            o_idx['p%d' % ctx.rng.randrange(3)] = ctx.rng.randrange(
                len(DEFAULTS))
        vals_ = [ctx.rng.choice(flat) if ctx.rng.random() < 0.8 else None
                 for _ in range(3)]
        check_defaults(ctx, env, d_idx, o_idx, vals_)
    # families: a subclass that inherits __init__ with its own _yatiml_defaults
    for _ in range(ctx.budget(1500, 30000)):
        d_idx = [ctx.rng.randrange(len(DEFAULTS)) for _ in range(3)]
        o_idx, o2_idx = {}, {}
        if ctx.rng.random() < 0.5:
            o_idx['p%d' % ctx.rng.randrange(3)] = ctx.rng.randrange(
                len(DEFAULTS))
        for j in range(3):
            if ctx.rng.random() < 0.5:
                o2_idx['p%d' % j] = ctx.rng.randrange(len(DEFAULTS))
        # values that coincide with one of the defaults in play
        vals_ = []
        for j in range(3):
            pool = [d_idx[j]] + [o_idx.get('p%d' % j, d_idx[j]),
                                 o2_idx.get('p%d' % j, d_idx[j])]
            d = DEFAULTS[ctx.rng.choice(pool)]
            sp = spelling_of(d)
            vals_.append(sp if sp is not None and ctx.rng.random() < 0.8
                         else ctx.rng.choice(flat))
        check_defaults(ctx, env, d_idx, o_idx, vals_, o2_idx)
    # values of other tags: dates, binary, foreign tags (never equal to a
    # default of a built-in type; must not make the helper fail)
    odd = [[S.TAG_TS, '2001-12-14'], [S.TAG_TS, '2001-12-14 21:59:43'],
           ['tag:yaml.org,2002:binary', 'aGk='], ['!Custom', 'xyz'],
           ['!Custom', '1'], ['tag:yaml.org,2002:value', '='],
           # explicitly tagged scalars that are no value of their tag
           # (savorizers see freshly parsed input: "that node may contain
           # anything"): equal to no default, and no reason to fail
           [S.TAG_INT, 'abc'], [S.TAG_INT, ''], [S.TAG_FLOAT, 'x'],
           [S.TAG_FLOAT, '1.5.5'], [S.TAG_BOOL, 'maybe'], [S.TAG_BOOL, ''],
           [S.TAG_TS, 'nonsense'], [S.TAG_NULL, 'x'], [S.TAG_INT, '0x'],
           [S.TAG_INT, '1:99:x']]
    for k, ov in enumerate(odd):
        for di in range(len(DEFAULTS)):
            if ctx.mine(k * 100 + di):
                check_defaults(ctx, env, [di, 0, 0], {}, [ov, None, None])


def spelling_of(d):
    if d is None:
        return [S.TAG_NULL, 'null']
    if isinstance(d, bool):
        return [S.TAG_BOOL, 'true' if d else 'false']
    if isinstance(d, int):
        return [S.TAG_INT, str(d)]
    if isinstance(d, float):
        if math.isnan(d):
            return [S.TAG_FLOAT, '.nan']
        if math.isinf(d):
            return [S.TAG_FLOAT, '.inf' if d > 0 else '-.inf']
        r = repr(d)
        if 'e' in r and '.' not in r:
            r = r.replace('e', '.0e')
        return [S.TAG_FLOAT, r]
    if isinstance(d, str):
        return [S.TAG_STR, d]
    return None


def replay(ctx, case):
    env = get_env()
    k = case['kind']
    if k == 'seq':
        run_sequence(ctx, case['ops'], 'replay', case.get('shared', False))
    elif k == 'classify':
        check_classify(ctx, case['spec'])
    elif k == 'setget':
        check_set_get(ctx, case['spec'], plain_dec(case['value']))
    elif k == 'spelling':
        check_spelling(ctx, env, case['s'])
    elif k == 'explicit':
        check_explicit(ctx, env, case['tag'], case['s'])
    elif k == 'defaults':
        check_defaults(ctx, env, case['d'], case['o'], case['vals'],
                       case.get('o2'))
