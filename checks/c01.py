"""C01 - a loaded value always conforms to the declared type.

Monitors: (1) the event log of the generated, self-instrumenting user classes:
every __init__ call yatiml makes - also in loads that fail later - is checked
for arguments that conform to that class's annotations; (2) the value returned
by the load function is walked by the conformance walker (vlib/values.py).
The oracle is total: any model, any document, any outcome.
"""
from vlib import docs as D
from vlib import harness as H
from vlib import values as V
from vlib import workload as W

PROPERTY = 'C01'
RULE = ('cases = (class model, document). Models: random "free" models '
        '(typed __init__ signatures, hierarchies incl. multiple inheritance, '
        'enums, str/UserString/yatiml.String classes, Union/Optional, '
        'List/Sequence/MutableSequence, Dict/Mapping/MutableMapping, Any, '
        'untyped, date, Path, bool_union_fix, _yatiml_extra, permissive '
        '_yatiml_recognize, node-rewriting and sabotaging _yatiml_savorize, '
        'unregistered and abstract classes) and unambiguous ones. Documents: '
        'projections of generated values in six styles, one- and two-site '
        'mutants (scalar kind, dropped/added/misspelt/dashed/duplicated keys, '
        'injected tags incl. registered class names and !!python/*, '
        'collection/scalar swaps, complex/merge/non-string keys), empty '
        'documents, token soup, splices, alias cycles. Non-trivial: the load '
        'returned a value containing a class instance or container which was '
        'walked, or at least one constructor call was checked; distinct by '
        '(model, text).')
ASSUMPTIONS = [
    'a declared `date` admits datetime.date and datetime.datetime (YAML '
    'timestamps construct either)',
    'an omitted optional parameter takes the Python default chosen by the '
    'model author; defaults themselves are not judged',
    'classes are those the spec language of vlib/models.py can express',
]


def requirements(tier):
    q = tier == 'quick'
    return {'loads': 60000 if q else 800000,
            'returned_walked_nontrivial': 12000 if q else 150000,
            'init_events_checked': 10000 if q else 130000,
            'sabotaged_models': 10000 if q else 130000,
            'rejected': 30000 if q else 400000,
            'empty_documents': 2000}


def type_constructors(t, out):
    if isinstance(t, str):
        out.add(t)
        return
    out.add(t[0])
    for x in t[1:]:
        if isinstance(x, (list, str)) and t[0] != 'cls':
            type_constructors(x, out)


def run_case(ctx, spec, text, meta=None):
    m = H.model_of(spec)
    case = {'spec': spec, 'text': text}
    try:
        load = m.load_fn()
    except Exception as e:
        ctx.count('load_function_creation_failed')
        ctx.case(case, False)
        return
    H.prior_partial_use(ctx, m, text, 4)
    m.reset()
    kind, x = H.run_load(load, text)
    ctx.count('loads')
    origin = (meta or {}).get('origin', 'replay')
    if origin == 'empty':
        ctx.count('empty_documents')
    feat = H.main_feature(text)
    mfeat = ','.join(H.model_features(spec)) or 'plain-model'
    nontrivial = False
    # (1) every constructor call
    for ev in m.events:
        if ev[2] != 'init':
            continue
        cname = ev[4]
        if cname not in m.cspecs:
            continue
        if m.kind(cname) in ('plain', 'dataclass'):
            ctx.count('init_events_checked')
            nontrivial = True
            r = V.conforms_args(m, cname, ev[5])
            if r:
                ctx.violation(
                    'C01 constructor-received-nonconforming-argument %s '
                    'feature=%s' % (reason_kind(r[1]), feat),
                    '%s.__init__ got %r: %s at %s (document %r, model '
                    'features %s)' % (cname, short(ev[5]), r[1], r[0],
                                      text[:200], mfeat), case)
        else:
            ctx.count('strinit_events_checked')
            if type(ev[5].get('value')) is not str:
                ctx.violation(
                    'C01 string-class-constructed-from-non-str feature=%s'
                    % feat, '%s(%r)' % (cname, ev[5].get('value')), case)
    # (2) the returned value
    if kind == 'ok':
        ctx.count('returned')
        r = V.conforms(m, x, spec['doc_type'])
        if V.has_instance(x):
            ctx.count('returned_walked_nontrivial')
            nontrivial = True
        cons = set()
        type_constructors(spec['doc_type'], cons)
        for c in cons:
            ctx.count('walked_type_' + c)
        if r:
            ctx.violation(
                'C01 returned-nonconforming %s feature=%s' % (
                    reason_kind(r[1]), feat),
                'load returned %s for declared type %r: %s at %s '
                '(document %r, model features %s)' % (
                    short(V.vdigest(x)), spec['doc_type'], r[1], r[0],
                    text[:200], mfeat), case)
    else:
        ctx.count('rejected')
    if 'sabotaging-savorize' in mfeat:
        ctx.count('sabotaged_models')
    ctx.case([spec, text], nontrivial)
    if kind == 'ok' and nontrivial and len(ctx.samples) < 4:
        ctx.sample({'doc_type': spec['doc_type'],
                    'classes': [c['name'] for c in spec['classes']],
                    'text': text[:300], 'origin': origin,
                    'returned': short(V.vdigest(x), 300)}, origin)


def reason_kind(reason):
    """Strip names from a conformance reason -> mechanism."""
    import re
    r = re.sub(r"\b[CELSU]\d+(Clone)?\b", 'K', reason)
    r = re.sub(r"k\d+_\w+", 'p', r)
    r = re.sub(r"'[^']*'", "'..'", r)
    return r.split(':')[0][:70].replace(' ', '-')


def short(x, n=200):
    s = repr(x)
    return s if len(s) <= n else s[:n] + '...'


def merge_variants(m, spec, v, nspec, rng):
    """Class mappings in which an optional attribute is supplied through a
    merge key ('<<') with a value of another scalar kind (bool for int is the
    one isinstance() would let through)."""
    from checks import c18
    from vlib import nodes as N
    from vlib import scalars as S
    out = []
    for p, s in D.paths(nspec):
        if s[0] != 'map':
            continue
        try:
            kind, sub = c18.value_at(v, nspec, p)
        except (c18.NoWalk, IndexError, KeyError, TypeError):
            continue
        cname = type(sub).__name__
        if kind != 'value' or getattr(sub, '_v_args', None) is None or \
                cname not in m.cspecs:
            continue
        opts = [q for q in m.cspecs[cname].get('params', [])
                if 'default' in q]
        if not opts:
            continue
        q = rng.choice(opts)
        pairs = [kv for kv in s[1] if not (
            kv[0][0] == 's' and kv[0][2] in (q['name'],
                                             q['name'].replace('_', '-')))]
        val = rng.choice([N.s_bool(True), N.s_bool('false'), N.s_int(1),
                          N.s_str('x'), ['seq', [N.s_int(1), N.s_bool(True)],
                                         S.TAG_SEQ]])
        pairs.insert(rng.randint(0, len(pairs)), [
            ['s', S.TAG_MERGE, '<<'],
            ['map', [[N.s_str(q['name']), val]], S.TAG_MAP]])
        out.append(D.set_at(nspec, p, ['map', pairs] + s[2:]))
        if len(out) >= 2:
            break
    return out


def shard(ctx):
    n_models = ctx.budget(12000, 150000)
    for i in range(n_models):
        profile = 'free' if ctx.rng.random() < 0.75 else 'unamb'
        st = W.Stream(ctx, profile, mutants=3, soup=1)
        spec, m = st.new_model()
        if spec is None:
            continue
        for text, meta in st.cases(spec, m, n_values=2):
            run_case(ctx, spec, text, meta)
            if meta.get('origin') == 'valid' and ctx.rng.random() < 0.5:
                for msp in merge_variants(m, spec, meta['value'],
                                          meta['spec'], ctx.rng):
                    try:
                        t2 = D.render(msp, 'block')
                    except (ValueError, RecursionError):
                        continue
                    ctx.count('merge_key_variants')
                    run_case(ctx, spec, t2, {'origin': 'merge'})


def replay(ctx, case):
    run_case(ctx, case['spec'], case['text'])
