"""C04 - a document cannot cause construction of objects the type model does
not call for.

Monitors
  * event log of the generated classes: every constructor call yatiml makes
    during a load (also one that fails later) is matched, as a multiset of
    (class, argument digest), against the constructor calls the reference
    semantics makes for the same document (vlib/refsem.py builds its value by
    calling the same constructors, continuing past failures so that every
    constructible sub-object is known); arguments must conform to the
    annotations;
  * walker over returned values: below every Any / untyped / _yatiml_extra
    position only dict, list and built-in scalars may occur;
  * tag-ignoring (metamorphic): a plain tree placed at an Any/untyped/extra
    position and decorated with arbitrary tags on its collections and foreign
    tags on its plain scalars loads exactly like the undecorated tree;
  * sys.addaudithook + canary module: no import/exec/os.system/
    subprocess.Popen event naming the canary (or os.system / Popen at all)
    between entry and exit of a load, the canary never imported (when it was
    not pre-imported) and never called.
"""
import builtins
import collections
import copy
import os
import sys

import yaml

import yatiml
from vlib import docs as D
from vlib import env
from vlib import harness as H
from vlib import nodes as N
from vlib import plain
from vlib import refsem as R
from vlib import scalars as S
from vlib import values as V
from vlib import workload as W
from checks import c02

PROPERTY = 'C04'
RULE = ('cases = (class model with Any / untyped / _yatiml_extra positions, '
        'document). Documents: valid documents and 1-2 site mutants with 1-3 '
        'tags injected at arbitrary nodes (scalars, collections, keys) from a '
        'pool of registered class names, unknown names, !!python/object, '
        '!!python/object/apply, !!python/object/new, !!python/name, '
        '!!python/module (naming a canary module and os.system), every '
        'core-schema tag and "!"; plus documents whose Any positions hold '
        'tag-decorated plain trees (compared with the undecorated tree). The '
        'canary is pre-imported in shards with an even number and absent from '
        'sys.modules in the others. Non-trivial: at least one constructor '
        'call was matched against the reference, a value below an Any '
        'position was walked, or a decorated/undecorated pair was compared; '
        'distinct by (model, text).')
ASSUMPTIONS = [
    'core-schema tags on scalars (!!int "12", !!binary ...) are kept by '
    'design and construct built-in scalars or fail; only that no user class, '
    'import or call results is demanded for them',
    'the tag-ignoring relation is applied to collections (any tag) and to '
    'plain-style scalars with tags outside the core namespace; for quoted '
    'scalars the repository re-resolves by value, which C13 pins as '
    'style-independent, so those are not compared',
    'where the reference semantics says Unspecified the weaker demand '
    'applies: the class is registered and its arguments conform',
    'plain data = dict, list, str, int, float, bool, None, date, datetime, '
    'bytes (and set / tuple for !!set and !!omap/!!pairs scalars kept by '
    'design)',
]


def requirements(tier):
    q = tier == 'quick'
    return {'loads': 80000 if q else 1000000,
            'tag_injected_loads': 80000 if q else 1000000,
            'init_events_matched': 5000 if q else 60000,
            'init_multisets_equal': 4000 if q else 50000,
            'any_positions_walked': 6000 if q else 75000,
            'decorated_pairs_compared': 6000 if q else 75000,
            'decorated_both_ok': 5500 if q else 65000,
            'python_tag_documents': 18000 if q else 220000,
            'audit_events_seen': 1,
            'audit_selftest': 16}


# ---------------------------------------------------------------------------
# audit hook + canary

_state = {'in_load': False, 'events': [], 'seen': 0, 'installed': False}
CANARY_DIR = os.path.join(env.VERIF, 'canary')


def _hook(event, args):
    _state['seen'] += 1
    if not _state['in_load']:
        return
    if event in ('os.system', 'subprocess.Popen', 'os.exec', 'os.spawn',
                 'os.posix_spawn', 'os.fork'):
        _state['events'].append((event, repr(args)[:120]))
    elif event == 'import':
        name = args[0] if args else ''
        _state['events'].append(('import', str(name)))
    elif event in ('exec', 'compile'):
        _state['events'].append((event, ''))
    elif event == 'open':
        path = str(args[0]) if args else ''
        if 'canary' in path:
            _state['events'].append(('open', path))


def install():
    if _state['installed']:
        return
    if CANARY_DIR not in sys.path:
        sys.path.append(CANARY_DIR)
    sys.addaudithook(_hook)
    _state['installed'] = True
    # modules that yaml constructs may import lazily: get them in now so
    # that import events during loads are meaningful
    import base64, binascii, datetime, re, types, collections.abc   # noqa
    import pathlib, enum, inspect, difflib, textwrap, logging      # noqa


def canary_log():
    return builtins.__dict__.setdefault('_verif_canary_log', [])


def monitored_load(ctx, load, text, case, feat):
    """Run the load under the audit hook; judge hook events and canary."""
    log = canary_log()
    n0 = len(log)
    had = 'verif_canary_mod' in sys.modules
    _state['events'] = []
    _state['in_load'] = True
    try:
        kind, x = H.run_load(load, text)
    finally:
        _state['in_load'] = False
    evs = _state['events']
    for ev in evs:
        if ev[0] in ('os.system', 'subprocess.Popen', 'os.exec', 'os.spawn',
                     'os.posix_spawn', 'os.fork'):
            ctx.violation('C04 audit %s during-load feature=%s' % (ev[0], feat),
                          'audit event %s%s raised during load of %r' % (
                              ev[0], ev[1], text[:200]), case)
        elif ev[0] == 'import' and ('canary' in ev[1] or ev[1] in (
                'os', 'subprocess') and ev[1] not in sys.modules):
            ctx.violation('C04 audit import-of-document-named-module '
                          'feature=%s' % feat,
                          'module %r imported during load of %r' % (
                              ev[1], text[:200]), case)
        elif ev[0] == 'open':
            ctx.violation('C04 audit canary-file-opened feature=%s' % feat,
                          'file %s opened during load of %r' % (
                              ev[1], text[:200]), case)
        elif ev[0] == 'import':
            ctx.count('benign_import_events_during_loads')
    if len(log) > n0:
        what = log[n0:]
        ctx.violation(
            'C04 canary %s feature=%s' % (what[0][0], feat),
            'canary module was %s during load of %r: %r' % (
                what[0][0], text[:200], what[:3]), case)
    if not had and 'verif_canary_mod' in sys.modules:
        ctx.violation('C04 canary imported feature=%s' % feat,
                      'canary module appeared in sys.modules during load of '
                      '%r' % text[:200], case)
        del sys.modules['verif_canary_mod']
    return kind, x


# ---------------------------------------------------------------------------

def inject_tags(spec, rng, class_names, k):
    out = spec
    n = 0
    for _ in range(k):
        allp = list(D.paths(out))
        p, node = rng.choice(allp)
        pool = D.TAG_POOL + ['!' + c for c in class_names] * 2
        tag = D.full_tag(rng.choice(pool))
        n2 = copy.deepcopy(node)
        if n2[0] == 's':
            n2[1] = tag
        elif n2[0] in ('seq', 'map'):
            n2 = n2[:2] + [tag]
        else:
            continue
        out = D.set_at(out, p, n2)
        n += 1
    return out, n


def event_multiset(events, m):
    ms = collections.Counter()
    for ev in events:
        if ev[2] != 'init':
            continue
        ms[H.json.dumps([ev[4], V.vdigest(ev[5])], default=repr,
                        sort_keys=True)] += 1
    return ms


def judge(ctx, spec, text, origin, ntags):
    m = H.model_of(spec)
    case = {'kind': 'load', 'spec': spec, 'text': text}
    try:
        load = m.load_fn()
    except Exception:
        ctx.count('load_function_creation_failed')
        return
    feat = H.main_feature(text)
    H.prior_partial_use(ctx, m, text, 4)
    m.reset()
    ref = R.ref_load(m, text)
    ref_events = list(m.events)
    m.reset()
    kind, x = monitored_load(ctx, load, text, case, feat)
    ctx.count('loads')
    if ntags:
        ctx.count('tag_injected_loads')
    if 'python/' in text:
        ctx.count('python_tag_documents')
    nontrivial = False
    # constructor calls ---------------------------------------------------------
    got = event_multiset(m.events, m)
    for ev in m.events:
        if ev[2] != 'init':
            continue
        cname = ev[4]
        if cname in m.cspecs and m.kind(cname) in ('plain', 'dataclass'):
            r = V.conforms_args(m, cname, ev[5])
            if r:
                ctx.violation(
                    'C04 constructor-called-with-unchecked-argument %s '
                    'feature=%s' % (c01_reason(r[1]), feat),
                    '%s.__init__ got %s: %s (document %r)' % (
                        cname, c02.short(ev[5]), r[1], text[:200]), case)
        if cname in m.cspecs and not m.is_registered(cname):
            ctx.violation(
                'C04 unregistered-class-constructed feature=%s' % feat,
                '%s.__init__ ran although %s is not registered (document %r)'
                % (cname, cname, text[:200]), case)
    if ref.kind != 'unspecified':
        want = event_multiset(ref_events, m)
        extra = got - want
        ctx.count('init_events_matched', sum((got & want).values()))
        if sum(got.values()):
            nontrivial = True
        if extra:
            k = next(iter(extra))
            ctx.violation(
                'C04 constructor-ran-for-node-the-model-does-not-call-for '
                'ref=%s load=%s feature=%s' % (ref.kind, kind, feat),
                'constructor call %s happened during the load (%d calls) but '
                'the documented rules construct only %d objects for document '
                '%r (reference: %s %s)' % (
                    k[:200], sum(got.values()), sum(want.values()),
                    text[:300], ref.kind, getattr(ref, 'reason', '')), case)
        elif ref.kind == 'accept' and kind == 'ok':
            if got == want:
                ctx.count('init_multisets_equal')
            # (a missing call with an equal value is impossible; C02 compares
            # values)
    else:
        ctx.count('ref_unspecified')
    # plain data below Any ----------------------------------------------------------
    if kind == 'ok':
        for path, sub in V.any_positions(m, x, spec['doc_type']):
            ctx.count('any_positions_walked')
            nontrivial = True
            r = V.plain_only(sub, path)
            if r:
                ctx.violation(
                    'C04 non-plain-object-below-any %s feature=%s' % (
                        c01_reason(r[1]), feat),
                    'value at %s is not plain data: %s (document %r)' % (
                        r[0], r[1], text[:200]), case)
                break
    ctx.case([spec, text], nontrivial)
    if len(ctx.samples) < 3 and ntags and sum(got.values()):
        ctx.sample({'origin': origin, 'text': text[:300],
                    'constructor_calls': sum(got.values()),
                    'reference': ref.kind, 'outcome': kind}, origin)


def c01_reason(reason):
    import re
    r = re.sub(r"\b[CELSUPK]\d+(Clone)?\b", 'K', reason)
    r = re.sub(r"'[^']*'", "'..'", r)
    return r.split(':')[0][:60].replace(' ', '-')


# ---------------------------------------------------------------------------
# decorated plain trees at Any positions

def any_spec_paths(m, v, t, path=()):
    """Paths in D.spec_of(D.proj(m, v, sweeten=False)) that sit at Any /
    untyped / extra positions."""
    if isinstance(t, str):
        if t in ('any', 'untyped'):
            yield path
        return
    k = t[0]
    if k in ('list', 'seq', 'mseq') and isinstance(v, list):
        for i, x in enumerate(v):
            yield from any_spec_paths(m, x, t[1], path + (('i', i),))
    elif k in ('dict', 'map', 'mmap') and isinstance(v, dict):
        for i, (key, x) in enumerate(v.items()):
            yield from any_spec_paths(m, x, t[2], path + (('v', i),))
    elif k == 'opt':
        # Optional[Any] / Union[X, Any] are not "positions typed Any": the
        # tag still takes part in choosing the Union member (not judged)
        if v is not None and t[1] not in ('any', 'untyped'):
            yield from any_spec_paths(m, v, t[1], path)
    elif k == 'union':
        if 'any' in t[1:]:
            return
        for mt in t[1:]:
            if mt not in ('any', 'buf') and V.conforms(m, v, mt) is None:
                yield from any_spec_paths(m, v, mt, path)
                break
    elif k == 'cls':
        args = getattr(v, '_v_args', None)
        cname = type(v).__name__
        if args is None or cname not in m.cspecs:
            return
        c = m.cspecs[cname]
        if c.get('parsed') or c.get('word_attr'):
            return
        i = 0
        for p in c.get('params', []):
            yield from any_spec_paths(m, args[p['name']], p['type'],
                                      path + (('v', i),))
            i += 1
        for _ in (args.get('_yatiml_extra') or {}):
            yield path + (('v', i),)
            i += 1


DECOR_TAGS = ['!Unknown', '!!python/object:verif_canary_mod.Canary',
              '!!python/object/apply:verif_canary_mod.boom',
              '!!python/object/new:verif_canary_mod.Canary',
              '!!python/object/apply:os.system', '!!set', '!!omap', '!!pairs',
              '!!map', '!!seq', '!!str', '!!int', '!Path', '!']
SCALAR_DECOR = ['!Unknown', '!Path', '!Foo']


def decorate(spec, rng, class_names, n_out):
    """Tags on collections (any tag) and foreign tags on plain-safe
    scalars."""
    if spec[0] == 's':
        if rng.random() < 0.25 and spec[1] != S.TAG_STR or (
                rng.random() < 0.25 and spec[2] and all(
                    c.isalnum() for c in spec[2])
                and S.ref_resolve_plain(spec[2]) == spec[1]):
            # only scalars that the renderer writes plain and that resolve
            # to their own tag by value
            if spec[2] and all(c.isalnum() or c in '.+-' for c in spec[2]) \
                    and spec[2][0].isalnum() and spec[2][-1].isalnum() \
                    and S.ref_resolve_plain(spec[2]) == spec[1]:
                n_out[0] += 1
                return ['s', D.full_tag(rng.choice(
                    SCALAR_DECOR + ['!' + c for c in class_names])), spec[2]]
        return list(spec)
    tag = None
    if rng.random() < 0.45:
        tag = D.full_tag(rng.choice(
            DECOR_TAGS + ['!' + c for c in class_names] * 3))
        n_out[0] += 1
    if spec[0] == 'seq':
        kids = [decorate(x, rng, class_names, n_out) for x in spec[1]]
        return ['seq', kids, tag or S.TAG_SEQ]
    kids = [[list(k), decorate(x, rng, class_names, n_out)]
            for k, x in spec[1]]
    return ['map', kids, tag or S.TAG_MAP]


def plain_tree(rng, m, class_names):
    """A plain tree; sometimes shaped like a valid object of a registered
    class (the attacker's best guess)."""
    if class_names and rng.random() < 0.4:
        cname = rng.choice(class_names)
        if m.kind(cname) in ('plain', 'dataclass'):
            g = V.Gen(m, rng, ('look',), finite=True)
            try:
                obj = g.instance(cname, 2)
                return D.spec_of(D.proj(m, obj, sweeten=True))
            except (V.NoValue, RecursionError, ValueError, TypeError):
                pass
    v = plain.rand_plain(rng, depth=rng.randint(1, 3), classes=('look',),
                         finite=True, dates=False)
    return D.spec_of(v)


def judge_decorated(ctx, spec, nspec, path, tree, dtree, style):
    m = H.model_of(spec)
    try:
        load = m.load_fn()
    except Exception:
        return
    a = D.set_at(nspec, path, tree)
    b = D.set_at(nspec, path, dtree)
    dashed = False
    if path and path[-1][0] == 'v' and (len(repr(tree)) + len(path)) % 6 == 0:
        # the key in front of the position written with dashes for
        # underscores (in both documents): a spelling some classes accept
        # and the others must treat as an unknown key, tags or no tags
        kp = tuple(path[:-1]) + (('k', path[-1][1]),)
        key = D.get_at(nspec, kp)
        if key[0] == 's' and '_' in key[2]:
            nk = ['s', key[1], key[2].replace('_', '-')]
            a, b = D.set_at(a, kp, nk), D.set_at(b, kp, nk)
            dashed = True
            ctx.count('decorated_pairs_with_dashed_key')
    try:
        ta, tb = D.render(a, style), D.render(b, style)
    except (ValueError, RecursionError):
        return
    case = {'kind': 'decor', 'spec': spec, 'nspec': nspec,
            'path': [list(s) for s in path], 'tree': tree, 'dtree': dtree,
            'style': style}
    m.reset()
    ka, xa = H.run_load(load, ta)
    inits_a = sorted(ev[3] for ev in m.events if ev[2] == 'init')
    m.reset()
    feat = H.main_feature(tb)
    if dashed:
        feat = 'dashed-key-before-any-position'
    kb, xb = monitored_load(ctx, load, tb, case, feat)
    inits = sorted(ev[3] for ev in m.events if ev[2] == 'init')
    if inits != inits_a:
        import collections
        diff = collections.Counter(inits)
        diff.subtract(collections.Counter(inits_a))
        ctx.violation(
            'C04 tags-below-any-not-ignored other-constructors-ran '
            'feature=%s' % feat,
            'undecorated %r ran the constructors %s, decorated %r ran %s '
            '(difference %s)' % (ta[:200], inits_a, tb[:200], inits,
                                 {k: v for k, v in diff.items() if v}), case)
    ctx.count('decorated_pairs_compared')
    ctx.count('loads')
    ctx.count('tag_injected_loads')
    if 'python/' in tb:
        ctx.count('python_tag_documents')
    if ka == 'ok' and kb == 'ok':
        if not V.vsame(xa, xb):
            ctx.violation(
                'C04 tags-below-any-not-ignored value-differs feature=%s'
                % feat,
                'undecorated %r loads to %s, decorated %r to %s' % (
                    ta[:200], c02.short(V.vdigest(xa)), tb[:200],
                    c02.short(V.vdigest(xb))), case)
        ctx.count('decorated_both_ok')
    elif ka != kb:
        exc = xa if ka == 'err' else xb
        ctx.violation(
            'C04 tags-below-any-not-ignored %s %s feature=%s' % (
                'plain-ok-decorated-fails' if ka == 'ok' else
                'plain-fails-decorated-ok', type(exc).__name__, feat),
            'undecorated %r: %s, decorated %r: %s (%s: %s)' % (
                ta[:200], ka, tb[:200], kb, type(exc).__name__,
                str(exc)[-200:]), case)
    ctx.case(['decor', spec, tb], True)
    if len(ctx.samples) < 5 and ka == 'ok':
        ctx.sample({'origin': 'decorated', 'undecorated': ta[:200],
                    'decorated': tb[:300], 'outcome': kb}, 'decorated')


def doc_order(path):
    return tuple((st[1], 0 if st[0] == 'k' else 1) for st in path)


def judge_aliased_any(ctx, spec, nspec, path, rng):
    """The node at an Any position is the same anchored node as a scalar
    (or collection) elsewhere in the document, where the model may read it as
    an enum, a string-like class or a Path: what is built at the Any position
    is plain data all the same, and what is built elsewhere is what the
    expanded document gives (the ordinary judgement, on the aliased text)."""
    cands = []
    for p, sub in D.paths(nspec):
        if not p or p[-1][0] == 'k' or p[:len(path)] == tuple(path):
            continue
        if tuple(path)[:len(p)] == p:
            continue        # an ancestor of the Any position
        if sub[0] == 's' and sub[1] == S.TAG_STR or (
                sub[0] in ('seq', 'map') and len(repr(sub)) < 200):
            cands.append((p, sub))
    rng.shuffle(cands)
    for p, sub in cands[:2]:
        first, second = sorted([tuple(path), p], key=doc_order)
        a = D.set_at(nspec, first, ['anchor', 'sh', copy.deepcopy(sub)])
        a = D.set_at(a, second, ['alias', 'sh'])
        try:
            text = D.render(a, rng.choice(['block', 'flow']))
        except (ValueError, RecursionError):
            continue
        ctx.count('any_position_aliased_with_typed_position')
        judge(ctx, spec, text, 'aliased-any', 0)


def has_any_position(spec):
    def walk(t):
        if isinstance(t, str):
            return t in ('any', 'untyped')
        if t[0] == 'cls':
            return False
        return any(walk(x) for x in t[1:])
    if walk(spec['doc_type']):
        return True
    for c in spec['classes']:
        if c.get('extra'):
            return True
        for p in c.get('params', []):
            if walk(p['type']):
                return True
    return False


def selftest(ctx):
    """The audit hook is alive and sees an import made during a 'load'."""
    _state['events'] = []
    _state['in_load'] = True
    try:
        sys.modules.pop('colorsys', None)
        __import__('colorsys')      # the way PyYAML's loaders import
    finally:
        _state['in_load'] = False
    if any(e == ('import', 'colorsys') for e in _state['events']):
        ctx.count('audit_selftest')
    ctx.count('audit_events_seen', _state['seen'])


def shard(ctx):
    rng = ctx.rng
    install()
    from vlib import repotests
    repotests.run(ctx, 'C04', ['strip-tags-post'])
    if ctx.shard % 2 == 0:
        import verif_canary_mod     # noqa  (pre-imported variant)
        del canary_log()[:]
        ctx.count('shards_with_canary_preimported')
    selftest(ctx)
    n_models = ctx.budget(8000, 100000)
    made = 0
    tries = 0
    while made < n_models and tries < n_models * 5:
        tries += 1
        profile = 'unamb' if rng.random() < 0.5 else 'free'
        st = W.Stream(ctx, profile, mutants=0, soup=0, cycles=0)
        spec, m = st.new_model()
        if spec is None:
            continue
        if not has_any_position(spec) and rng.random() < 0.7:
            continue
        made += 1
        cn = [c['name'] for c in spec['classes'] if c.get('registered', True)]
        kp = W.key_pool(spec)
        g = V.Gen(m, rng, ('look', 'uni'), finite=False)
        for _ in range(2):
            try:
                v = g.value(spec['doc_type'])
            except (V.NoValue, RecursionError):
                continue
            try:
                nspec = D.spec_of(D.proj(m, v, sweeten=True))
                nspec_ns = D.spec_of(D.proj(m, v, sweeten=False))
            except (ValueError, TypeError, RecursionError):
                continue
            # tag injection on valid documents and mutants
            for j in range(6):
                base = nspec
                if j >= 4:
                    base, _w = D.mutate(base, rng, cn, kp)
                tsp, n = inject_tags(base, rng, cn, rng.choice([1, 1, 1, 2, 3]))
                if rng.random() < 0.25:
                    # share equal sub-nodes through anchors/aliases: an alias
                    # stands for a copy, tags on the anchored node included
                    tsp, _na = D.share_equal_subnodes(tsp, rng, 0.8)
                    if _na:
                        ctx.count('aliased_documents')
                try:
                    text = D.render(tsp, rng.choice(D.STYLES))
                except (ValueError, RecursionError):
                    continue
                judge(ctx, spec, text, 'tag-injected', n)
            # decorated plain trees at Any positions (unsweetened form so
            # that the paths are known; classes whose recogniser needs the
            # sweetened form are skipped by the load failing both ways)
            apaths = list(any_spec_paths(m, v, spec['doc_type']))
            rng.shuffle(apaths)
            for p in apaths[:3]:
                try:
                    D.get_at(nspec_ns, p)
                except (IndexError, TypeError):
                    continue
                tree = plain_tree(rng, m, cn)
                n_out = [0]
                dtree = decorate(tree, rng, cn, n_out)
                if not n_out[0]:
                    continue
                judge_decorated(ctx, spec, nspec_ns, p, tree, dtree,
                                rng.choice(['block', 'flow']))
            for p in apaths[:2]:
                try:
                    D.get_at(nspec_ns, p)
                except (IndexError, TypeError):
                    continue
                judge_aliased_any(ctx, spec, nspec_ns, p, rng)
            # a key the class does not know, or knows already (a second
            # occurrence), or keeps out of yatiml's sight (keyword-only
            # parameter), in front of a decorated plain tree: tags below it
            # count as little as below an Any position
            from checks import c17
            try:
                cms = c17.class_mappings(m, spec, v, nspec)
            except Exception:
                cms = []
            rng.shuffle(cms)
            for p, cname in cms[:2]:
                node = D.get_at(nspec, p)
                have = [k[2] for k, _ in node[1] if k[0] == 's']
                pool = ['verif_unknown', 'self', 'return', 'kw_' +
                        cname.lower()] + have[:3] + [
                    h.replace('_', '-') for h in have[:2] if '_' in h]
                key = rng.choice(pool)
                n2 = copy.deepcopy(node)
                idx = rng.randint(0, len(n2[1]))
                n2[1].insert(idx, [['s', S.TAG_STR, key],
                                   ['s', S.TAG_NULL, '~']])
                nspec2 = D.set_at(nspec, p, n2)
                tree = plain_tree(rng, m, cn)
                n_out = [0]
                dtree = decorate(tree, rng, cn, n_out)
                if not n_out[0]:
                    continue
                ctx.count('decorated_pairs_below_unexpected_key')
                judge_decorated(ctx, spec, nspec2, tuple(p) + (('v', idx),),
                                tree, dtree, rng.choice(['block', 'flow']))
    # whole documents typed Any
    spec0 = {'classes': [
        {'name': 'Victim', 'kind': 'plain',
         'params': [{'name': 'a', 'type': 'int'}]},
        {'name': 'Color', 'kind': 'enum', 'members': ['red', 'green']},
        {'name': 'Host', 'kind': 'userstring'}],
        'doc_type': 'any'}
    m0 = H.model_of(spec0)
    for _ in range(ctx.budget(6000, 80000)):
        tree = plain_tree(rng, m0, ['Victim'])
        n_out = [0]
        dtree = decorate(tree, rng, ['Victim', 'Color', 'Host'], n_out)
        if not n_out[0]:
            continue
        judge_decorated(ctx, spec0, N.s_null('null'), (), tree, dtree,
                        rng.choice(['block', 'flow']))


def replay(ctx, case):
    install()
    if case['kind'] == 'load':
        judge(ctx, case['spec'], case['text'], 'replay', 1)
    else:
        judge_decorated(ctx, case['spec'], case['nspec'],
                        tuple(tuple(s) for s in case['path']), case['tree'],
                        case['dtree'], case['style'])
