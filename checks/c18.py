"""C18 - anchors and aliases are transparent.

Metamorphic monitor (oracle-free): a document in which equal sub-nodes are
shared through anchors/aliases is loaded next to its alias-free expansion; the
two texts are produced by the same renderer from the same node spec and are
used only if both compose (with the loader class under test) to the same tag
tree.  Outcomes must agree: equal values, or both fail.  Self-referential
aliases must end in RecognitionError / YAMLError.
"""
import yaml

import yatiml
from vlib import docs as D
from vlib import harness as H
from vlib import values as V
from vlib import workload as W

PROPERTY = 'C18'
RULE = ('cases = (class model, node spec, sharing choice). Specs: projections '
        'of generated values that contain repeated equal sub-values (shared '
        'sub-objects, repeated scalars/sequences/class mappings incl. seasoned '
        'classes) and 1-2 site mutants of them; a random subset of the sets of '
        'equal sub-nodes is replaced by anchor+aliases; both texts rendered in '
        'the same style (block/flow/quoted/json). Hand-shaped families put one '
        'shared node at positions of different declared types (Any vs class, '
        'bool vs enum, str vs enum, class vs extra attribute). Cycles: 8 '
        'self-referential documents x every model. Non-trivial: the aliased '
        'text really contains an alias and both texts compose to the same tag '
        'tree; distinct by (model, aliased text).')
ASSUMPTIONS = [
    'PyYAML composes an alias as the very same node object (trusted)',
    'alias fan-out is small (no alias bombs): sharing comes from values with '
    'at most a few dozen nodes',
    'equality of outcomes: equal structural digests, or both loads fail '
    '(error classes are not compared)',
]


def requirements(tier):
    q = tier == 'quick'
    return {'pairs_compared': 5000 if q else 100000,
            'pairs_both_ok': 2500 if q else 50000,
            'pairs_both_fail': 1400 if q else 30000,
            'shared_collections': 2000 if q else 40000,
            'shared_class_nodes': 1500 if q else 25000,
            'cycle_loads': 3000 if q else 40000,
            'family_cases': 150}


def sharing_features(aspec):
    """What kind of node got anchored (for mechanism keys)."""
    kinds = set()
    for _, s in D.paths(aspec):
        if s[0] == 'anchor':
            kinds.add({'s': 'scalar', 'seq': 'sequence',
                       'map': 'mapping'}[s[2][0]])
    return sorted(kinds)



# ---------------------------------------------------------------------------
# mechanism classification of a disagreement
#
# The one mechanism recorded as a known finding (see DESIGN.md and
# known_findings.json): the loader processes a shared node once per
# reference and *rewrites it in place* (re-tags it with the class tag,
# savorizes it, strips it below Any), so every other reference sees - and
# yields - the rewritten node.  That can only happen when SOME reference is
# interpreted as an enum, string-like, Path or user class.  Whether one is, is
# read off the value the *expanded* document loads to (the expanded load must
# have succeeded), by walking value and node spec in parallel, for the
# anchors that reproduce the disagreement when shared alone.

def keep_only(aspec, name):
    """Copy of an anchored spec in which only anchor `name` is shared."""
    table = {}

    def redefine(s):
        """Copy of an already rendered sub-spec for a second occurrence: the
        kept anchor was defined the first time, so it becomes an alias."""
        k = s[0]
        if k == 'anchor':
            return ['alias', s[1]]
        if k in ('s', 'alias'):
            return list(s)
        if k == 'seq':
            return ['seq', [redefine(x) for x in s[1]]] + s[2:]
        return ['map', [[redefine(a), redefine(b)] for a, b in s[1]]] + s[2:]

    def walk(s):
        k = s[0]
        if k == 'anchor':
            inner = walk(s[2])
            table[s[1]] = inner
            if s[1] == name:
                return ['anchor', s[1], inner]
            return inner
        if k == 'alias':
            if s[1] == name:
                return ['alias', name]
            return redefine(table[s[1]])
        if k == 's':
            return list(s)
        if k == 'seq':
            return ['seq', [walk(x) for x in s[1]]] + s[2:]
        return ['map', [[walk(a), walk(b)] for a, b in s[1]]] + s[2:]
    return walk(aspec)


def anchor_names(aspec):
    return [s[1] for _, s in D.paths(aspec) if s[0] == 'anchor']


def occurrence_paths(aspec, name):
    """Paths (in the EXPANDED spec) of every occurrence of the anchored node
    that is written out in the aliased spec: its definition and aliases."""
    out = []
    for p, s in D.paths(aspec):
        if (s[0] == 'anchor' and s[1] == name) or (
                s[0] == 'alias' and s[1] == name):
            out.append(tuple(st for st in p if st[0] != 'a'))
    return out


class NoWalk(Exception):
    pass


def value_at(value, nspec, path):
    """Sub-value a successfully loaded value holds for the node at `path`
    of the (expanded) node spec; ('key', object) for key nodes."""
    cur, node = value, nspec
    for step in path:
        kind = step[0]
        if kind == 'i':
            if not isinstance(cur, list) or node[0] != 'seq':
                raise NoWalk()
            cur, node = cur[step[1]], node[1][step[1]]
        elif kind in ('v', 'k'):
            if node[0] != 'map':
                raise NoWalk()
            knode, vnode = node[1][step[1]]
            if knode[0] != 's':
                raise NoWalk()
            key = knode[2]
            args = getattr(cur, '_v_args', None)
            if args is not None:
                if kind == 'k':
                    # key node of a class mapping: savorizers rename keys by
                    # mutating the key node in place
                    return ('key-of-class', cur)
                if key in args:
                    nxt = args[key]
                elif key in (args.get('_yatiml_extra') or {}):
                    # (also a dashed key next to its underscored twin: it
                    # arrived as an extra attribute, plain data)
                    nxt = args['_yatiml_extra'][key]
                elif key.replace('-', '_') in args:
                    nxt = args[key.replace('-', '_')]
                else:
                    raise NoWalk()
            elif isinstance(cur, dict):
                hit = [k for k in cur if str(k) == key]
                if len(hit) != 1:
                    # a non-str key (int, bool...) constructed from the node
                    hit = [k for k in cur if V.vdigest(k) == V.vdigest(
                        key)] or hit
                if len(hit) != 1:
                    raise NoWalk()
                if kind == 'k':
                    return ('key', hit[0])
                nxt = cur[hit[0]]
            else:
                raise NoWalk()
            cur, node = nxt, vnode
        else:
            raise NoWalk()
    return ('value', cur)


def rewriting_interpretation(v):
    """Is v the result of an interpretation that re-tags / savorizes the
    node (enum, string-like, Path, user class)?"""
    import enum
    import pathlib
    import collections
    if isinstance(v, enum.Enum) or isinstance(v, pathlib.PurePath):
        return True
    if getattr(v, '_v_args', None) is not None:
        return True
    if isinstance(v, (str, collections.UserString, yatiml.String)) \
            and type(v) is not str:
        return True
    if isinstance(v, dict):
        return any(rewriting_interpretation(k) or rewriting_interpretation(x)
                   for k, x in v.items())
    if isinstance(v, list):
        return any(rewriting_interpretation(x) for x in v)
    return False


def classify(ctx, spec, nspec, aspec, style, expanded_value):
    """-> mechanism suffix for the violation key."""
    m = H.model_of(spec)
    load = m.load_fn()
    names = anchor_names(aspec)
    culprits = []
    text_e = D.render(nspec, style)
    for nm in names[:40]:
        single = keep_only(aspec, nm)
        try:
            ta = D.render(single, style)
        except (ValueError, RecursionError):
            continue
        ka, xa = H.run_load(load, ta)
        ke, xe = H.run_load(load, text_e)
        if H.outcome_digest(ka, xa)[0] != H.outcome_digest(ke, xe)[0] or (
                ka == 'ok' and H.outcome_digest(ka, xa)
                != H.outcome_digest(ke, xe)):
            culprits.append(nm)
    if not culprits:
        culprits = names[:40]
        combo = True
    else:
        combo = False
    verdicts = []
    for nm in culprits:
        uses = []
        for p in occurrence_paths(aspec, nm):
            try:
                kind, sub = value_at(expanded_value, nspec, p)
            except (NoWalk, IndexError, KeyError, TypeError):
                uses.append('unwalkable')
                continue
            uses.append('rewrites' if rewriting_interpretation(sub)
                        else 'plain')
        if 'rewrites' in uses:
            verdicts.append('rewrites')
        elif 'unwalkable' in uses:
            verdicts.append('unwalkable')
        else:
            verdicts.append('plain')
    if 'plain' in verdicts and not combo:
        return 'all-uses-plain'
    if 'rewrites' in verdicts:
        return 'some-use-rewrites-node-in-place'
    if 'plain' in verdicts:
        return 'all-uses-plain'
    return 'uses-unwalkable'


def compare(ctx, spec, text_a, text_e, case, feat, nspec=None, aspec=None,
            style=None):
    m = H.model_of(spec)
    try:
        load = m.load_fn()
    except Exception:
        ctx.count('load_function_creation_failed')
        return
    ta = D.compose_tree(load.loader, text_a)
    te = D.compose_tree(load.loader, text_e)
    if ta is None or te is None or ta != te or ta == ['too-big']:
        ctx.count('discarded_tag_tree_differs')
        ctx.case(case, False)
        return
    m.reset()
    ka, xa = H.run_load(load, text_a)
    ev_a = len(m.events)
    m.reset()
    ke, xe = H.run_load(load, text_e)
    ctx.count('pairs_compared')
    da = H.outcome_digest(ka, xa)
    de = H.outcome_digest(ke, xe)
    mf = ','.join(H.model_features(spec)) or 'plain-model'
    seasoned = any(c.get('savorize') for c in spec['classes'])
    mech = ''
    if ke == 'ok' and (ka != ke or da != de) and nspec is not None:
        try:
            mech = ' ' + classify(ctx, spec, nspec, aspec, style, xe)
        except Exception as e:      # classification must never hide a case
            mech = ' unclassified(%s)' % type(e).__name__
    if ka == 'ok' and ke == 'ok':
        ctx.count('pairs_both_ok')
        if da != de:
            ctx.violation(
                'C18 value-differs%s' % mech,
                'aliased document loads to %s, expanded to %s; aliased %r '
                'expanded %r (model %s)' % (short(da), short(de),
                                            text_a[:200], text_e[:200], mf),
                case)
    elif ka != ke:
        what = ('aliased-fails-expanded-loads' if ka == 'err'
                else 'aliased-loads-expanded-fails')
        exc = xa if ka == 'err' else xe
        ctx.violation(
            'C18 %s %s%s' % (what, type(exc).__name__, mech),
            '%s: %s: %s; aliased %r expanded %r (model %s)' % (
                what, type(exc).__name__, str(exc)[-200:], text_a[:200],
                text_e[:200], mf), case)
    else:
        ctx.count('pairs_both_fail')
        for x in (xa, xe):
            if not isinstance(x, H.ALLOWED):
                ctx.count('non_recognition_error_seen_(C08_matter)')
    # the multi-document entry point of the same loader class must read the
    # aliased document like the load function does
    try:
        docs = list(yaml.load_all(text_a, Loader=load.loader))
        ks, xs = ('ok', docs[0]) if len(docs) == 1 else ('err', None)
    except RecursionError as e:
        ks, xs = 'err', e
    except Exception as e:      # noqa
        ks, xs = 'err', e
    ctx.count('load_all_compared')
    if ks != ka or (ks == 'ok' and H.outcome_digest(ks, xs) != da):
        ctx.violation(
            'C18 load_all-differs-from-load (%s vs %s)' % (ks, ka),
            'aliased document %r: load gives %s, yaml.load_all with the same '
            'loader class gives %s' % (text_a[:200], short(da), short(
                H.outcome_digest(ks, xs) if ks == 'ok' else [
                    'err', type(xs).__name__])), case)
    ctx.case(case, True)
    if len(ctx.samples) < 3 and ka == 'ok':
        ctx.sample({'aliased': text_a[:300], 'expanded': text_e[:300],
                    'doc_type': spec['doc_type'], 'outcome': 'equal values'
                    if da == de else 'DIFFERENT'}, 'pair')


def short(x, n=160):
    s = repr(x)
    return s if len(s) <= n else s[:n] + '...'


def run_pair(ctx, spec, nspec, rng_seed, style):
    import random
    rng = random.Random(rng_seed)
    aspec, n = D.share_equal_subnodes(nspec, rng, prob=0.75)
    if n == 0:
        ctx.count('no_equal_subnodes')
        return
    feat = '+'.join(sharing_features(aspec))
    if 'mapping' in feat:
        ctx.count('shared_class_nodes')
    if 'mapping' in feat or 'sequence' in feat:
        ctx.count('shared_collections')
    try:
        text_a = D.render(aspec, style)
        text_e = D.render(nspec, style)
    except (ValueError, RecursionError):
        return
    case = {'kind': 'pair', 'spec': spec, 'nspec': nspec, 'seed': rng_seed,
            'style': style}
    compare(ctx, spec, text_a, text_e, case, feat, nspec, aspec, style)


def run_cycle(ctx, spec, text):
    m = H.model_of(spec)
    try:
        load = m.load_fn()
    except Exception:
        return
    ctx.count('cycle_loads')
    kind, x = H.run_load(load, text)
    case = {'kind': 'cycle', 'spec': spec, 'text': text}
    if kind == 'ok':
        if contains_itself(x):
            ctx.violation('C18 self-referential-alias accepted',
                          'document %r loaded to a value that contains '
                          'itself: %s' % (text, short(V.vdigest(x))), case)
        else:
            # the alias that closes the cycle was removed by a savorizer
            # (e.g. a discriminator-removing one) before anything descended
            # into it; the value is finite - counted, not judged
            ctx.count('cycle_loads_finite_value')
    elif not isinstance(x, H.ALLOWED):
        ctx.violation(
            'C18 self-referential-alias %s %s' % (type(x).__name__,
                                                  H.exc_site(x)),
            'document %r raised %s: %s' % (text, type(x).__name__,
                                          str(x)[:200]), case)
    ctx.case(case, True)


def contains_itself(v, _path=None, _depth=0):
    """Is the object graph below v cyclic (or absurdly deep)?"""
    if _depth > 150:
        return True
    args = getattr(v, '_v_args', None)
    if args is not None and not isinstance(v, type):
        kids = list(args.values())
    elif isinstance(v, dict):
        kids = list(v.keys()) + list(v.values())
    elif isinstance(v, (list, tuple)):
        kids = list(v)
    else:
        return False
    _path = _path or ()
    if id(v) in _path:
        return True
    _path = _path + (id(v),)
    return any(contains_itself(k, _path, _depth + 1) for k in kids)


# hand-shaped families: one shared node at positions of different types
def families():
    fams = []
    E = {'name': 'E1', 'kind': 'enum', 'members': ['true', 'false', 'x']}
    C = {'name': 'C1', 'kind': 'plain',
         'params': [{'name': 'a', 'type': 'int'}]}
    Cd = {'name': 'C2', 'kind': 'plain',
          'params': [{'name': 'b', 'type': 'int'}],
          'recognize': ['attr_value', 'kind', 'C2'],
          'savorize': [['remove_attr', 'kind']],
          'sweeten': [['set_attr', 'kind', 'C2']]}
    Cx = {'name': 'C3', 'kind': 'plain', 'extra': True,
          'params': [{'name': 'c', 'type': ['cls', 'C1']}]}
    Cdash = {'name': 'C4', 'kind': 'plain',
             'params': [{'name': 'd_e', 'type': 'int'}],
             'savorize': [['dashes_to_unders']],
             'sweeten': [['unders_to_dashes']]}
    S_ = 'tag:yaml.org,2002:'
    a1 = ['map', [[['s', S_ + 'str', 'a'], ['s', S_ + 'int', '1']]],
          S_ + 'map']
    fams.append(('any-vs-class', {'classes': [C], 'doc_type': [
        'dict', 'str', ['union', ['cls', 'C1'], ['list', 'any']]]},
        ['map', [[['s', S_ + 'str', 'p'], a1],
                 [['s', S_ + 'str', 'q'], ['seq', [a1], S_ + 'seq']]],
         S_ + 'map']))
    fams.append(('class-then-any', {'classes': [C], 'doc_type': [
        'list', ['union', ['cls', 'C1'], ['list', 'any']]]},
        ['seq', [['seq', [a1], S_ + 'seq'], a1], S_ + 'seq']))
    t = ['s', S_ + 'bool', 'true']
    fams.append(('bool-vs-enum', {'classes': [E], 'doc_type': [
        'dict', 'str', ['union', ['list', 'bool'], ['cls', 'E1']]]},
        ['map', [[['s', S_ + 'str', 'p'], t],
                 [['s', S_ + 'str', 'q'], ['seq', [t], S_ + 'seq']]],
         S_ + 'map']))
    fams.append(('enum-vs-bool', {'classes': [E], 'doc_type': [
        'dict', 'str', ['union', ['list', 'bool'], ['cls', 'E1']]]},
        ['map', [[['s', S_ + 'str', 'q'], ['seq', [t], S_ + 'seq']],
                 [['s', S_ + 'str', 'p'], t]], S_ + 'map']))
    d2 = ['map', [[['s', S_ + 'str', 'b'], ['s', S_ + 'int', '1']],
                  [['s', S_ + 'str', 'kind'], ['s', S_ + 'str', 'C2']]],
          S_ + 'map']
    fams.append(('seasoned-class-twice', {'classes': [Cd], 'doc_type': [
        'list', ['cls', 'C2']]}, ['seq', [d2, d2], S_ + 'seq']))
    fams.append(('seasoned-class-in-dict', {'classes': [Cd], 'doc_type': [
        'dict', 'str', ['cls', 'C2']]},
        ['map', [[['s', S_ + 'str', 'p'], d2], [['s', S_ + 'str', 'q'], d2]],
         S_ + 'map']))
    d4 = ['map', [[['s', S_ + 'str', 'd-e'], ['s', S_ + 'int', '1']]],
          S_ + 'map']
    fams.append(('dashed-class-twice', {'classes': [Cdash], 'doc_type': [
        'list', ['cls', 'C4']]}, ['seq', [d4, d4, d4], S_ + 'seq']))
    fams.append(('class-vs-extra', {'classes': [C, Cx], 'doc_type': [
        'cls', 'C3']},
        ['map', [[['s', S_ + 'str', 'c'], a1], [['s', S_ + 'str', 'zz'], a1]],
         S_ + 'map']))
    fams.append(('extra-vs-class', {'classes': [C, Cx], 'doc_type': [
        'cls', 'C3']},
        ['map', [[['s', S_ + 'str', 'zz'], a1], [['s', S_ + 'str', 'c'], a1]],
         S_ + 'map']))
    # empty mappings shared between items that a savorizer completes in place
    Iopt = {'name': 'I1', 'kind': 'plain', 'roster_item': True,
            'params': [{'name': 'k', 'type': 'str'},
                       {'name': 'v', 'type': 'int', 'default': 0}]}
    Oidx = {'name': 'O1', 'kind': 'plain', 'roster': True,
            'params': [{'name': 'o', 'type': 'int'},
                       {'name': 'items',
                        'type': ['dict', 'str', ['cls', 'I1']]}],
            'recognize': ['all', ['attr', 'o', None],
                          ['attr', 'items', None]],
            'savorize': [['map_to_index', 'items', 'k', None]],
            'sweeten': [['index_to_map', 'items', 'k', None]]}
    e0 = ['map', [], S_ + 'map']
    fams.append(('empty-items-completed-in-place',
                 {'classes': [Iopt, Oidx], 'doc_type': ['cls', 'O1']},
                 ['map', [[['s', S_ + 'str', 'o'], ['s', S_ + 'int', '1']],
                          [['s', S_ + 'str', 'items'],
                           ['map', [[['s', S_ + 'str', 'mary'], e0],
                                    [['s', S_ + 'str', 'bob'], e0],
                                    [['s', S_ + 'str', 'al'], e0]],
                            S_ + 'map']]], S_ + 'map']))
    Cset = {'name': 'C5', 'kind': 'plain',
            'params': [{'name': 'u', 'type': 'str', 'default': 'cm'}],
            'savorize': [['set_attr', 'u', 'cm']],
            'sweeten': [['record']]}
    fams.append(('empty-class-vs-empty-dict',
                 {'classes': [Cset], 'doc_type': [
                     'list', ['union', ['cls', 'C5'], ['list', [
                         'dict', 'str', 'str']]]]},
                 ['seq', [e0, ['seq', [e0, e0], S_ + 'seq'], e0],
                  S_ + 'seq']))
    # no user class at all: Path and str / Any sharing one scalar
    px = ['s', S_ + 'str', 'x/y']
    fams.append(('path-vs-str-no-classes',
                 {'classes': [], 'doc_type': [
                     'dict', 'str', ['union', 'str', ['list', 'path']]]},
                 ['map', [[['s', S_ + 'str', 'a'], px],
                          [['s', S_ + 'str', 'b'], ['seq', [px], S_ + 'seq']],
                          [['s', S_ + 'str', 'c'], px]], S_ + 'map']))
    fams.append(('path-vs-any-no-classes',
                 {'classes': [], 'doc_type': [
                     'dict', 'str', ['union', ['list', 'path'],
                                     ['dict', 'str', 'any']]]},
                 ['map', [[['s', S_ + 'str', 'a'], ['seq', [px], S_ + 'seq']],
                          [['s', S_ + 'str', 'b'],
                           ['map', [[['s', S_ + 'str', 'q'], px]],
                            S_ + 'map']]], S_ + 'map']))
    i1 = ['s', S_ + 'int', '1']
    fams.append(('scalar-int-twice', {'classes': [C], 'doc_type': [
        'list', ['union', 'int', ['cls', 'C1']]]},
        ['seq', [i1, a1, i1, a1], S_ + 'seq']))
    return fams


def dup_seq_items(spec, rng):
    """Repeat items inside sequences (type-compatible by construction) so
    that equal sub-nodes exist."""
    import copy
    k = spec[0]
    if k == 'seq':
        items = [dup_seq_items(x, rng) for x in spec[1]]
        if items and rng.random() < 0.6:
            for _ in range(rng.randint(1, 2)):
                items.insert(rng.randint(0, len(items)),
                             copy.deepcopy(rng.choice(items)))
        return ['seq', items] + spec[2:]
    if k == 'map':
        return ['map', [[a, dup_seq_items(b, rng)] for a, b in spec[1]]] \
            + spec[2:]
    return spec


def shard(ctx):
    rng = ctx.rng
    n_models = ctx.budget(9000, 120000)
    for i in range(n_models):
        profile = 'unamb' if rng.random() < 0.6 else 'free'
        st = W.Stream(ctx, profile, mutants=0, soup=0, empties=False,
                      share=0.6)
        spec, m = st.new_model()
        if spec is None:
            continue
        kp = W.key_pool(spec)
        cn = W.class_names(spec)
        if 'sabotaging-savorize' in H.model_features(spec):
            # a savorizer of the model that rewrites a *sub*-node in place
            # (wrong tag, wrong kind) changes every reference of a shared
            # node: that is the model author's doing, not yatiml's; such
            # models take part in the cycle workload only
            ctx.count('sabotaged_models_cycles_only')
            if rng.random() < 0.5:
                run_cycle(ctx, spec, rng.choice(D.CYCLES))
            continue
        for v, nspec in st.valid_specs(spec, m, 3):
            nspec = dup_seq_items(nspec, rng)
            style = rng.choice(['block', 'flow', 'dq', 'json', 'sq'])
            run_pair(ctx, spec, nspec, rng.getrandbits(32), style)
            if rng.random() < 0.5:
                msp, what = D.mutate(nspec, rng, cn, kp)
                run_pair(ctx, spec, msp, rng.getrandbits(32), style)
            if rng.random() < 0.5:
                csp = D.make_cycle(nspec, rng)
                if csp is not None:
                    try:
                        run_cycle(ctx, spec, D.render(csp, style))
                    except (ValueError, RecursionError):
                        pass
        if rng.random() < 0.5:
            run_cycle(ctx, spec, rng.choice(D.CYCLES))
    for k, (name, spec, nspec) in enumerate(families()):
        for style in ('block', 'flow', 'json'):
            for seed in range(6):
                if ctx.mine(k * 18 + seed):
                    ctx.count('family_cases')
                    run_pair(ctx, spec, nspec, seed, style)


def replay(ctx, case):
    if case['kind'] == 'cycle':
        run_cycle(ctx, case['spec'], case['text'])
    else:
        run_pair(ctx, case['spec'], case['nspec'], case['seed'], case['style'])
