"""C13 - load is invariant under changes that do not alter the document's
meaning.

Oracle-free metamorphic monitor: every (model, document) case is loaded next
to transformed variants - class-mapping keys permuted, the node tree
re-rendered in five other styles (used only when the loader class under test
composes it to the same tag tree), unrelated classes additionally registered,
List/Sequence/MutableSequence and Dict/Mapping/MutableMapping rotated in all
annotations, bool_union_fix added to every Union containing bool - and the
outcomes (structural value digest, or failure) must agree.
"""
import copy

import yaml
import yatiml
from vlib import docs as D
from vlib import harness as H
from vlib import values as V
from vlib import workload as W
from checks import c18

PROPERTY = 'C13'
RULE = ('cases = (class model, node spec of a valid document or of a 1-2 site '
        'mutant) x transformations {permute keys of every mapping loaded as a '
        'class (extras keep their relative order); re-render in block, flow, '
        'double-quoted, single-quoted, JSON and canonical style; register two '
        'unrelated classes; rotate list/seq/mseq and dict/map/mmap in every '
        'annotation; add bool_union_fix to unions with bool}. A pair is '
        'compared only if both texts compose to the same tag tree. '
        'Non-trivial: a transformed variant was actually loaded and compared; '
        'distinct by (model, text, transformation).')
ASSUMPTIONS = [
    '"equal value" = equal structural digest (classes, bound arguments, order '
    'of lists/dicts/extras); for failures only the fact of failure is compared',
    'key permutation is applied to mappings that the original load turned '
    'into class instances (read off the returned value); in failing documents '
    'every mapping is permuted',
    'unrelated classes have fresh names, no base in the model and at least '
    'one required parameter with a fresh name; documents may carry tags that '
    'name them (they are admissible at no position of the model, so such a '
    'tag is an unknown tag before and a conflicting or ignored tag after)',
]


def requirements(tier):
    q = tier == 'quick'
    return {'base_loads': 12000 if q else 150000,
            'compared_permute': 4000 if q else 50000,
            'compared_style': 30000 if q else 400000,
            'compared_extra_classes': 10000 if q else 120000,
            'compared_container_swap': 5000 if q else 60000,
            'compared_bool_fix': 300 if q else 4000,
            'lone_class_models': 500 if q else 7000,
            'both_ok': 15000 if q else 200000,
            'both_fail': 15000 if q else 200000}


ROT = {'list': 'seq', 'seq': 'mseq', 'mseq': 'list',
       'dict': 'map', 'map': 'mmap', 'mmap': 'dict'}


def rot_type(t, changed):
    if isinstance(t, str):
        return t
    if t[0] in ROT:
        changed[0] = True
        return [ROT[t[0]]] + [rot_type(x, changed) for x in t[1:]]
    if t[0] == 'cls':
        return t
    return [t[0]] + [rot_type(x, changed) for x in t[1:]]


def buf_type(t, changed):
    if isinstance(t, str):
        return t
    if t[0] == 'cls':
        return t
    inner = [buf_type(x, changed) for x in t[1:]]
    if t[0] == 'union' and 'bool' in inner and 'buf' not in inner:
        changed[0] = True
        # directly after bool, as the documentation writes it
        inner.insert(inner.index('bool') + 1, 'buf')
    if t[0] == 'opt' and inner[0] == 'bool':
        changed[0] = True
        return ['union', 'bool', 'none', 'buf']
    return [t[0]] + inner


def map_types(spec, fn):
    changed = [False]
    s2 = copy.deepcopy(spec)
    s2['doc_type'] = fn(s2['doc_type'], changed)
    for c in s2['classes']:
        for p in c.get('params', []):
            if p['type'] != 'untyped':
                p['type'] = fn(p['type'], changed)
        r = c.get('recognize')
        if r:
            c['recognize'] = map_rule(r, fn, changed)
    return s2, changed[0]


def map_rule(r, fn, changed):
    if r[0] == 'attr' and r[2] is not None:
        return ['attr', r[1], fn(r[2], changed)]
    if r[0] == 'all':
        return ['all'] + [map_rule(x, fn, changed) for x in r[1:]]
    return r


UNRELATED = [
    {'name': 'ZUnrelatedA', 'kind': 'plain',
     'params': [{'name': 'zunrelated_a_id', 'type': 'int'}]},
    {'name': 'ZUnrelatedB', 'kind': 'enum', 'members': ['zq1', 'zq2']},
    # a class every mapping - also an empty one - is good for
    {'name': 'ZUnrelatedC', 'kind': 'plain',
     'params': [{'name': 'zunrelated_c_id', 'type': 'int', 'default': 0}]},
]


# an unrelated user class may be called like a type yatiml handles itself
UNRELATED_NAMESAKES = [
    {'name': 'Path', 'kind': 'plain',
     'params': [{'name': 'zunrelated_path_id', 'type': 'int'}]},
    {'name': 'Date', 'kind': 'plain',
     'params': [{'name': 'zunrelated_date_id', 'type': 'int'}]},
    {'name': 'String', 'kind': 'plain',
     'params': [{'name': 'zunrelated_str_id', 'type': 'int'}]},
]
# (not 'str' / 'date': the generated module would then derive its str-based
# classes from the namesake, which is no unrelated class any more)


def with_unrelated(spec, namesakes=False):
    s2 = copy.deepcopy(spec)
    extra = copy.deepcopy(UNRELATED)
    if namesakes:
        have = {c['name'] for c in s2['classes']}
        extra += [c for c in copy.deepcopy(UNRELATED_NAMESAKES)
                  if c['name'] not in have]
    s2['classes'] = s2['classes'] + extra
    if 'order' in s2:
        s2['order'] = s2['order'] + [c['name'] for c in extra]
    return s2


def permute_class_mappings(nspec, value, rng, failing):
    """Permute keys of mappings that were loaded as class instances."""
    out = copy.deepcopy(nspec)
    n = 0
    # deepest first: permuting a mapping changes the index paths below it
    for p, s in sorted(D.paths(nspec), key=lambda ps: -len(ps[0])):
        if s[0] != 'map' or len(s[1]) < 2:
            continue
        is_class = failing
        extras = set()
        if not failing:
            try:
                kind, sub = c18.value_at(value, nspec, p)
            except (c18.NoWalk, IndexError, KeyError, TypeError):
                continue
            args = getattr(sub, '_v_args', None)
            if kind != 'value' or args is None:
                continue
            is_class = True
            present = {k[2] for k, _ in s[1] if k[0] == 's'}
            for k, _ in s[1]:
                if k[0] != 's':
                    is_class = False
                    break
                if k[2] in (args.get('_yatiml_extra') or {}):
                    # read off the loaded value: it arrived as an extra
                    extras.add(k[2])
                    continue
                under = k[2].replace('-', '_')
                # (_yatiml_extra is where the extras are kept, no parameter
                # a key could stand for)
                pnames = set(args) - {'_yatiml_extra'}
                # a dashed key stands in for the underscored parameter only
                # when that is not itself present; otherwise it is an extra
                if k[2] not in pnames and (under not in pnames or (
                        under != k[2] and under in present)):
                    extras.add(k[2])
        if not is_class:
            continue
        if not failing and '_yatiml_extra' not in args:
            # no extra attributes to keep in order: keys that are no
            # parameters (written by sweeteners, removed by savorizers) move
            # like the others
            extras = set()
        keys = [repr(k) for k, _ in s[1]]
        if len(set(keys)) != len(keys) or any(
                k[0] == 's' and k[1] == D.CORE + 'merge' for k, _ in s[1]):
            # which occurrence of a key that is there twice counts (and what
            # a merge key overrides) depends on the order: permuting such a
            # mapping alters the document's meaning
            continue
        pairs = list(D.get_at(out, p)[1])
        par = [x for x in pairs if not (x[0][0] == 's' and x[0][2] in extras)]
        ext = [x for x in pairs if x[0][0] == 's' and x[0][2] in extras]
        rng.shuffle(par)
        merged = []
        pi, ei = 0, 0
        while pi < len(par) or ei < len(ext):
            if ei >= len(ext) or (pi < len(par) and rng.random() < 0.6):
                merged.append(par[pi])
                pi += 1
            else:
                merged.append(ext[ei])
                ei += 1
        if merged != pairs:
            n += 1
        node = D.get_at(out, p)
        newnode = [node[0], merged] + node[2:]
        out = D.set_at(out, p, newnode)
    return out, n


def load_outcome(spec, text):
    m = H.model_of(spec)
    try:
        load = m.load_fn()
    except Exception as e:
        return None, ('nofn', e), None
    kind, x = H.run_load(load, text)
    return load, (kind, x), m


def cmp(ctx, name, base, other, case, detail):
    """base/other: (kind, x). Compare; record."""
    kb, xb = base
    ko, xo = other
    ctx.count('compared_' + name)
    if kb == 'ok' and ko == 'ok':
        ctx.count('both_ok')
        db, do = V.vdigest(xb), V.vdigest(xo)
        if db != do:
            ctx.violation('C13 %s value-differs' % name,
                          '%s: original loads to %s, transformed to %s; %s'
                          % (name, short(db), short(do), detail), case)
    elif kb == 'err' and ko == 'err':
        ctx.count('both_fail')
    else:
        exc = xb if kb == 'err' else xo
        ctx.violation(
            'C13 %s %s %s' % (name, 'ok-to-fail' if kb == 'ok'
                              else 'fail-to-ok', type(exc).__name__),
            '%s: original %s, transformed %s (%s: %s); %s' % (
                name, kb, ko, type(exc).__name__, str(exc)[-200:], detail),
            case)
    ctx.case([name, case], True)


def short(x, n=200):
    s = repr(x)
    return s if len(s) <= n else s[:n] + '...'


def run_case(ctx, spec, nspec, style, seed, only=None):
    import random
    rng = random.Random(seed)
    case = {'spec': spec, 'nspec': nspec, 'style': style, 'seed': seed}
    try:
        text = D.render(nspec, style)
    except (ValueError, RecursionError):
        return
    load, base, m = load_outcome(spec, text)
    if load is None:
        ctx.count('load_function_creation_failed')
        return
    ctx.count('base_loads')
    tree = D.compose_tree(load.loader, text)
    if tree is None or tree == ['too-big']:
        ctx.count('base_not_composable')
        return
    kb, xb = base
    # 1 key permutation
    if only in (None, 'permute'):
        pspec, n = permute_class_mappings(nspec, xb, rng, kb != 'ok')
        if n:
            try:
                ptext = D.render(pspec, style)
            except (ValueError, RecursionError):
                ptext = None
            if ptext is not None:
                _, other, _ = load_outcome(spec, ptext)
                cmp(ctx, 'permute', base, other, dict(case, t='permute'),
                    'original %r permuted %r' % (text[:200], ptext[:200]))
    # 2 styles
    if only in (None, 'style'):
        for st2 in D.STYLES:
            if st2 == style:
                continue
            try:
                t2 = D.render(nspec, st2)
            except (ValueError, RecursionError):
                continue
            if D.compose_tree(load.loader, t2) != tree:
                ctx.count('discarded_style_changes_tag_tree')
                continue
            _, other, _ = load_outcome(spec, t2)
            cmp(ctx, 'style', base, other, dict(case, t='style'),
                '%s %r vs %s %r' % (style, text[:200], st2, t2[:200]))
    # 3 unrelated classes
    if only in (None, 'extra_classes'):
        s3 = with_unrelated(spec)
        _, other, _ = load_outcome(s3, text)
        if other[0] != 'nofn':
            cmp(ctx, 'extra_classes', base, other,
                dict(case, t='extra_classes'), 'document %r' % text[:200])
        if len(text) % 3 == 0:
            s3 = with_unrelated(spec, namesakes=True)
            _, other, _ = load_outcome(s3, text)
            if other[0] != 'nofn':
                ctx.count('namesake_classes_cases')
                cmp(ctx, 'extra_classes_named_like_builtin_types', base,
                    other, dict(case, t='extra_classes'),
                    'document %r' % text[:200])
    # 4 container rotation
    if only in (None, 'container_swap'):
        s4, ch = map_types(spec, rot_type)
        if ch:
            _, other, _ = load_outcome(s4, text)
            if other[0] != 'nofn':
                cmp(ctx, 'container_swap', base, other,
                    dict(case, t='container_swap'),
                    'document %r doc type %r -> %r' % (
                        text[:200], spec['doc_type'], s4['doc_type']))
    # 5 bool_union_fix
    if only in (None, 'bool_fix'):
        s5, ch = map_types(spec, buf_type)
        if ch:
            _, other, _ = load_outcome(s5, text)
            if other[0] != 'nofn':
                cmp(ctx, 'bool_fix', base, other, dict(case, t='bool_fix'),
                    'document %r' % text[:200])
    # 6 equal sub-nodes written once, with an anchor, and referenced by
    # aliases afterwards
    if only in (None, 'aliases'):
        import random as _random
        asp, n_al = D.share_equal_subnodes(nspec, _random.Random(seed), 0.9)
        if n_al:
            try:
                t6 = D.render(asp, style if style in ('block', 'flow')
                              else 'block')
            except (ValueError, RecursionError):
                t6 = None
            if t6 is not None and D.compose_tree(load.loader, t6) != tree:
                # the renderer respelled something (a null key written ''
                # in one style and ~ in another: text a savorizer may read)
                ctx.count('discarded_alias_spelling_changes_tree')
                t6 = None
            if t6 is not None:
                _, other, _ = load_outcome(spec, t6)
                if other[0] != 'nofn':
                    ctx.count('alias_spellings_compared')
                    cmp(ctx, 'aliases', base, other, dict(case, t='aliases'),
                        'document %r spelled %r' % (text[:200], t6[:200]))
    if len(ctx.samples) < 3 and kb == 'ok':
        ctx.sample({'doc_type': spec['doc_type'], 'text': text[:300],
                    'transformations': 'permute, 5 styles, +2 classes, '
                    'container rotation, bool_union_fix'}, 'case')


def shard(ctx):
    rng = ctx.rng
    n_models = ctx.budget(3000, 40000)
    for i in range(n_models):
        profile = 'unamb' if rng.random() < 0.5 else 'free'
        st = W.Stream(ctx, profile, mutants=0, soup=0, empties=False)
        spec, m = st.new_model()
        if spec is None:
            continue
        kp = W.key_pool(spec)
        cn = W.class_names(spec)
        for v, nspec in st.valid_specs(spec, m, 2):
            run_case(ctx, spec, nspec, rng.choice(D.STYLES),
                     rng.getrandbits(32))
            for _ in range(2):
                msp, what = D.mutate(nspec, rng, cn, kp)
                run_case(ctx, spec, msp, rng.choice(D.STYLES),
                         rng.getrandbits(32))
    lone_class_cases(ctx, rng, ctx.budget(600, 8000))
    no_class_cases(ctx, rng, ctx.budget(1500, 20000))
    bool_union_cases(ctx, rng)
    twin_key_cases(ctx, rng, ctx.budget(40, 500) // 16 + 1)
    aliased_scalar_cases(ctx, rng)
    if ctx.shard == 2:
        directed_cases(ctx, rng)


def directed_cases(ctx, rng):
    """(a) a class whose savorizer takes two keys off its node one after the
    other (and sets a third): the order of the keys in the document must not
    matter; (b) Unions of two sequence / mapping types with different item
    types, documents that one member rejects at an item: the container
    rotation must not matter."""
    two = {'name': 'TwoSugar', 'kind': 'plain',
           'params': [{'name': 'ts_x', 'type': 'int'},
                      {'name': 'ts_y', 'type': 'str', 'default': 'd'}],
           'recognize': ['all', ['attr', 'ts_x', None]],
           'savorize': [['remove_attr', 'ka'], ['remove_attr', 'kb'],
                        ['remove_attr', 'kc']],
           'sweeten': [['set_attr', 'ka', 1], ['set_attr', 'kb', 2],
                       ['set_attr', 'kc', 3]]}
    spec = {'classes': [two], 'doc_type': ['list', ['cls', 'TwoSugar']]}
    try:
        m = H.model_of(spec)
        spec = H.clean_spec(spec)
        T = m.classes['TwoSugar']
        for i in range(40):
            v = [T(ts_x=i, ts_y=rng.choice(['d', 'e'])) for _ in range(2)]
            nspec = D.spec_of(D.proj(m, v, sweeten=True))
            ctx.count('directed_two_removals')
            for _ in range(3):
                run_case(ctx, spec, nspec, rng.choice(D.STYLES),
                         rng.getrandbits(32), only='permute')
    except Exception as e:
        ctx.note('directed two-removals family: %r' % (e,))
    docs = [[1, 2], ['a', 'b'], [1, 'a'], [], [[1], ['a']], {'k': 1},
            {'k': 'a'}, {'k': 1, 'l': 'a'}, {'k': [1, 2]}, {'k': ['a']}]
    types = [['union', ['list', 'int'], ['list', 'str']],
             ['union', ['dict', 'str', 'int'], ['dict', 'str', 'str']],
             ['list', ['union', ['list', 'int'], ['list', 'str']]],
             ['dict', 'str', ['union', ['list', 'int'], ['list', 'str'],
                              'int']],
             ['union', ['list', ['list', 'int']], ['list', ['list', 'str']]]]
    def respell(t, L, M):
        if isinstance(t, str):
            return t
        if t[0] == 'list':
            return [L] + [respell(x, L, M) for x in t[1:]]
        if t[0] == 'dict':
            return [M] + [respell(x, L, M) for x in t[1:]]
        return [t[0]] + [respell(x, L, M) for x in t[1:]]
    types = [respell(t, L, M) for t in types
             for L, M in (('list', 'dict'), ('seq', 'map'), ('mseq', 'mmap'))]
    for dt in types:
        for d in docs:
            ctx.count('directed_container_unions')
            run_case(ctx, {'classes': [], 'doc_type': dt,
                           'profile': 'no-class'}, D.spec_of(d),
                     rng.choice(['block', 'flow']), rng.getrandbits(32),
                     only='container_swap')


def lone_class_cases(ctx, rng, n):
    """Models with exactly one registered class: registering unrelated
    classes must not change how a tagged / untagged node of it is read."""
    from vlib import modelgen as G
    from vlib import nodes as N
    made = 0
    tries = 0
    while made < n and tries < n * 20:
        tries += 1
        spec = G.gen_model(rng, 'unamb')
        plains = [c for c in spec['classes'] if c.get('kind') == 'plain'
                  and not c.get('bases') and not c.get('parsed')
                  and all(isinstance(p['type'], str) for p in c['params'])]
        if not plains:
            continue
        c = copy.deepcopy(rng.choice(plains))
        for k in ('recognize', 'savorize', 'sweeten', 'word_attr'):
            c.pop(k, None)
        if rng.random() < 0.25:
            c['abc'] = True
        lone = {'classes': [c], 'doc_type': rng.choice(
            [['cls', c['name']], ['list', ['cls', c['name']]],
             ['dict', 'str', ['cls', c['name']]]]), 'profile': 'lone'}
        try:
            m = H.model_of(lone)
        except Exception:
            continue
        lone = H.clean_spec(lone)
        made += 1
        ctx.count('lone_class_models')
        g = V.Gen(m, rng, ('look',), finite=True)
        cc = copy.deepcopy(lone)
        cc['classes'][0].pop('abc', None)
        mm = H.model_of(cc)
        gg = V.Gen(mm, rng, ('look',), finite=True)
        try:
            v = gg.instance(c['name'], 2)
        except (V.NoValue, RecursionError):
            continue
        inner = D.spec_of(D.proj(mm, v))
        if c.get('extra'):
            # an extra attribute holding an untagged collection with tagged
            # nodes further down, some naming the class registered later
            from vlib import plain as P
            from checks import c04
            n_out = [0]
            sub = c04.decorate(D.spec_of(P.rand_plain(
                rng, depth=2, classes=('look',), finite=True, dates=False)),
                rng, ['ZUnrelatedA', 'ZUnrelatedA', c['name']], n_out)
            wrapped = ['seq', [sub, ['map', [[N_s('zunrelated_a_id'),
                                               ['s', S_INT, '1']]],
                                     '!ZUnrelatedA'],
                               # empty collections that carry the tag of a
                               # class registered only in the other run
                               rng.choice([
                                   ['map', [], '!ZUnrelatedC'],
                                   ['seq', [], '!ZUnrelatedC'],
                                   ['map', [[N_s('k'), ['map', [],
                                                        '!ZUnrelatedC']]],
                                    S_MAP],
                                   ['seq', [['map', [], '!ZUnrelatedC'],
                                            ['map', [], '!ZUnrelatedC']],
                                    S_SEQ]])], S_SEQ]
            # (under an ordinary key, and under keys named like parts of
            # the constructor's signature, which are extras like any other)
            xkey = rng.choice(['zz_extra_key', 'zz_extra_key', 'self',
                               '_yatiml_extra', 'cls', 'kwargs'])
            node = inner[:1] + [inner[1] + [[N_s(xkey), wrapped]]] \
                + inner[2:]
            run_case(ctx, lone, node, rng.choice(['block', 'flow']),
                     rng.getrandbits(32), only='extra_classes')
        for tag in (None, '!Nonsense', '!' + c['name'], '!ZUnrelatedA',
                    '!Path'):
            node = inner if tag is None else inner[:2] + [tag]
            dt = lone['doc_type']
            if dt[0] == 'list':
                node = ['seq', [node, node], S_SEQ]
            elif dt[0] == 'dict':
                node = ['map', [[N.s_str('k'), node]], S_MAP]
            run_case(ctx, lone, node, rng.choice(['block', 'flow']),
                     rng.getrandbits(32), only='extra_classes')


def bool_union_cases(ctx, rng):
    """Unions in which bool meets types that also accept a boolean-looking
    scalar (an enum, a class recognising any scalar): adding bool_union_fix
    must not change the outcome."""
    E = {'name': 'Tri', 'kind': 'enum', 'members': ['true', 'false', 'maybe']}
    Sany = {'name': 'AnyScalar', 'kind': 'plain',
            'params': [{'name': 'v', 'type': 'any', 'default': None}],
            'recognize': ['scalar', []],
            'savorize': [['scalar_to_mapping', ['v'], '\x00']]}
    A = {'name': 'Holder', 'kind': 'plain', 'params': [
        {'name': 'flag', 'type': ['union', 'bool', ['cls', 'Tri']]}]}
    types = [['union', 'bool', ['cls', 'Tri']],
             ['union', ['cls', 'Tri'], 'bool'],
             ['union', 'bool', 'int', ['cls', 'Tri']],
             ['union', 'int', 'bool', 'str'],
             ['list', ['union', 'bool', ['cls', 'Tri']]],
             ['opt', 'bool'], ['cls', 'Holder'],
             ['union', 'bool', ['cls', 'AnyScalar']]]
    docs = [N_s('x'), ['s', 'tag:yaml.org,2002:bool', 'true'],
            ['s', 'tag:yaml.org,2002:bool', 'False'],
            ['s', 'tag:yaml.org,2002:int', '1'], N_s('maybe'), N_s('true'),
            ['s', 'tag:yaml.org,2002:null', 'null']]
    k = 0
    for t in types:
        spec = {'classes': [E, Sany, A], 'doc_type': t, 'profile': 'boolu'}
        for d in docs:
            k += 1
            if not ctx.mine(k):
                continue
            node = d
            if t[0] == 'list':
                node = ['seq', [d, d], S_SEQ]
            elif t == ['cls', 'Holder']:
                node = ['map', [[N_s('flag'), d]], S_MAP]
            ctx.count('bool_union_family_cases')
            run_case(ctx, spec, node, 'block', k, only='bool_fix')
            run_case(ctx, spec, node, 'flow', k, only='extra_classes')


def no_class_cases(ctx, rng, n):
    """Load functions without any user class: registering unrelated classes
    must not change how tagged plain data is read."""
    from vlib import plain as P
    from checks import c04
    for _ in range(n):
        dt = rng.choice(['any', ['dict', 'str', 'any'], ['list', 'any'],
                         ['dict', 'str', ['list', 'any']],
                         ['union', 'int', ['list', 'any']]])
        spec = {'classes': [], 'doc_type': dt, 'profile': 'no-class'}
        v = P.rand_plain(rng, depth=rng.randint(1, 3), classes=('look',),
                         finite=True, dates=False)
        tree = D.spec_of(v)
        n_out = [0]
        tree = c04.decorate(tree, rng, ['Thing', 'ZUnrelatedA', 'ZUnrelatedA'], n_out)
        if dt != 'any':
            if dt[0] == 'list':
                tree = ['seq', [tree], S_SEQ]
            elif dt[0] == 'dict' and dt[2] == 'any':
                tree = ['map', [[N_s('k'), tree]], S_MAP]
            elif dt[0] == 'dict':
                tree = ['map', [[N_s('k'), ['seq', [tree], S_SEQ]]], S_MAP]
            else:
                tree = ['seq', [tree], S_SEQ]
        ctx.count('no_class_cases')
        run_case(ctx, spec, tree, rng.choice(['block', 'flow']),
                 rng.getrandbits(32), only='extra_classes')
        if rng.random() < 0.3:
            # one collection three or more times in a document
            sub = D.spec_of(P.rand_plain(rng, depth=1, classes=('look',),
                                         finite=True, dates=False))
            if sub[0] == 's':
                sub = ['seq', [sub, N_s('x')], S_SEQ]
            rep = ['seq', [sub, sub, ['map', [[N_s('k'), sub],
                                              [N_s('l'), sub]], S_MAP]],
                   S_SEQ]
            ctx.count('repeated_collection_cases')
            run_case(ctx, {'classes': [], 'doc_type': rng.choice(
                ['any', ['list', 'any']]), 'profile': 'no-class'}, rep,
                rng.choice(['block', 'flow']), rng.getrandbits(32),
                only='aliases')


def N_s(v):
    return ['s', 'tag:yaml.org,2002:str', v]


S_SEQ = 'tag:yaml.org,2002:seq'
S_INT = 'tag:yaml.org,2002:int'
S_MAP = 'tag:yaml.org,2002:map'


def aliased_scalar_cases(ctx, rng):
    """One scalar node at two positions of different declared types
    (bool / enum with a member of that name, str / enum, str / Path, int /
    Union): the block or flow text with the alias and its re-serialisation
    as JSON - where the alias is written out, the node tags being the same -
    must load alike."""
    T = 'tag:yaml.org,2002:'
    E = {'name': 'Tri', 'kind': 'enum', 'members': ['true', 'false', 'maybe']}
    combos = [('bool', ['cls', 'Tri'], ['s', T + 'bool', 'true']),
              (['cls', 'Tri'], 'bool', ['s', T + 'bool', 'false']),
              ('str', ['cls', 'Tri'], ['s', T + 'str', 'maybe']),
              ('str', 'path', ['s', T + 'str', 'a/b']),
              ('int', ['union', 'int', 'str'], ['s', T + 'int', '3']),
              (['cls', 'Tri'], ['cls', 'Tri'], ['s', T + 'bool', 'true']),
              ('any', ['cls', 'Tri'], ['s', T + 'bool', 'true'])]
    for k, (ta, tb, sc) in enumerate(combos):
        if not ctx.mine(k):
            continue
        P = {'name': 'Pair', 'kind': 'plain',
             'params': [{'name': 'first', 'type': ta},
                        {'name': 'second', 'type': tb},
                        {'name': 'label', 'type': 'str', 'default': ''}]}
        spec = {'classes': [E, P], 'doc_type': ['cls', 'Pair'],
                'profile': 'alias-json'}
        for order in (('first', 'second'), ('second', 'first')):
            aliased = ['map', [[N_s(order[0]), ['anchor', 'sc', list(sc)]],
                               [N_s('label'), N_s('x')],
                               [N_s(order[1]), ['alias', 'sc']]], S_MAP]
            written = ['map', [[N_s(order[0]), list(sc)],
                               [N_s('label'), N_s('x')],
                               [N_s(order[1]), list(sc)]], S_MAP]
            for style in ('block', 'flow'):
                try:
                    ta_ = D.render(aliased, style)
                    tj = D.render(written, 'json')
                except (ValueError, RecursionError):
                    continue
                load, base, m = load_outcome(spec, tj)
                if load is None:
                    ctx.count('load_function_creation_failed')
                    continue
                other = H.run_load(load, ta_)
                ctx.count('aliased_vs_json_pairs')
                cmp(ctx, 'reserialize_json_writes_alias_out', base, other,
                    {'alias_json': True},
                    'JSON %r, with the alias %r' % (tj, ta_))


def twin_key_cases(ctx, rng, n):
    """A class with an underscored parameter and _yatiml_extra (and no
    seasoning of its keys) whose mapping holds the parameter under BOTH
    spellings: the underscored key is the attribute, the dashed one an
    extra attribute like any other, wherever each stands.  Every order of
    the keys must give the same object (extras compared as a plain
    mapping: their relative order is the document's)."""
    import collections
    import itertools
    import typing

    def make(pname, ptype, with_opt):
        ns = {'OrderedDict': collections.OrderedDict, 'T': ptype,
              'Optional': typing.Optional}
        src = ('class Limits:\n'
               '    def __init__(self, name: str, %s: T%s, _yatiml_extra: '
               '%s) -> None:\n'
               '        self.args = (name, %s, opt if %s else None)\n'
               '        self.extra = _yatiml_extra\n' % (
                   pname, ', opt: int = 7' if with_opt else '',
                   'Optional[OrderedDict] = None' if with_opt
                   else 'OrderedDict', pname, with_opt))
        exec(src, ns)
        return ns['Limits']
    for k in range(n):
        pname = rng.choice(['max_size', 'a_b', 'x_y_z'])
        ptype, good, other = rng.choice([
            (int, '3', 'unlimited'), (str, 'abc', '[1, 2]'),
            (bool, 'true', '5'), (float, '1.5', 'x'),
            (typing.List[int], '[1]', 'none')])
        with_opt = rng.random() < 0.5
        K = make(pname, ptype, with_opt)
        load = yatiml.load_function(K)
        entries = ['name: a', '%s: %s' % (pname, good),
                   '%s: %s' % (pname.replace('_', '-'), other)]
        if rng.random() < 0.6:
            entries.append('note: x')
        outcomes = {}
        for perm in itertools.permutations(entries):
            text = '\n'.join(perm) + '\n' if rng.random() < 0.7 else \
                '{' + ', '.join(perm) + '}\n'
            try:
                o = load(text)
                d = ['ok', repr(o.args), sorted(
                    (str(a), repr(b)) for a, b in (o.extra or {}).items())]
            except (yatiml.RecognitionError, yaml.YAMLError) as e:
                d = ['err', type(e).__name__]
            outcomes[text] = d
            ctx.count('compared_permute')
            ctx.count('twin_spelling_permutations')
        first_text = next(iter(outcomes))
        for text, d in outcomes.items():
            if d != outcomes[first_text]:
                ctx.violation(
                    'C13 permute twin-spellings %s-vs-%s' % (
                        outcomes[first_text][0], d[0]),
                    'a class with parameter %s and _yatiml_extra: %r gives '
                    '%s, the same keys in another order %r give %s' % (
                        pname, first_text, short(outcomes[first_text]), text,
                        short(d)), {'twin': True, 'seed': rng.getrandbits(1)})
                break
        ctx.case(['twin', k, ctx.shard], True)


def replay(ctx, case):
    if case.get('alias_json'):
        ctx.shard, ctx.nshards = 0, 1
        aliased_scalar_cases(ctx, None)
        return
    if case.get('twin'):
        import random
        twin_key_cases(ctx, random.Random(0), 40)
        return
    run_case(ctx, case['spec'], case['nspec'], case['style'], case['seed'],
             only=case.get('t'))
