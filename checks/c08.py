"""C08 - bad input is reported only as RecognitionError or a YAML error.

Monitor: the exception class leaving the callable returned by
yatiml.load_function, observed at the boundary, for hostile texts and for
loads in which user code (constructors, string-like constructors, savorizers)
is made to raise at every call position in turn (fault enumeration through
the generated classes' own fault hook).  Shard crashes and hangs are observed
outcomes too (subprocess + faulthandler + watchdog).
"""
import yaml

import yatiml
from vlib import docs as D
from vlib import harness as H
from vlib import models as M
from vlib import workload as W

PROPERTY = 'C08'
RULE = ('cases = (class model, text[, injected fault]). Texts: random unicode, '
        'token soup from YAML indicators, truncated/spliced valid documents, '
        'valid documents and 1-2 site mutants (duplicate, complex, merge and '
        'non-string keys, explicit core/foreign/python tags on matching and '
        'non-matching scalars), alias cycles, empty documents; nesting <= 40, '
        'length <= 4 KiB. Fault enumeration: for a load that makes k calls '
        'into user constructors / string-like constructors, k x 7 re-runs in '
        'which the i-th call raises ValueError, KeyError, TypeError, '
        'AttributeError, IndexError, RuntimeError or a custom Exception; '
        'savorizers raise SeasoningError. Non-trivial: the text got past the '
        'YAML parser into yatiml (a node was processed) or a fault was '
        'injected; distinct by (model, text, fault).')
ASSUMPTIONS = [
    'sources are str; OSError for unreadable files is out of scope',
    'a _yatiml_recognize or _yatiml_savorize raising an arbitrary exception '
    '(not RecognitionError / SeasoningError) is a bug in user code and is not '
    'demanded to be wrapped; such models are not generated',
    'SystemExit/KeyboardInterrupt/MemoryError are not judged',
    'RuntimeError raised by yatiml for a *model* it documents as unsupported '
    '(e.g. unregistered class named in an annotation -> RecognitionError is '
    'what it raises; Dict with non-string keys -> RuntimeError) concerns the '
    'program, not the input: models are restricted to the documented type '
    'language',
]
WATCHDOG = {'quick': 600, 'thorough': 5400}

FAULT_EXCS = ['ValueError', 'KeyError', 'TypeError', 'AttributeError',
              'IndexError', 'RuntimeError', 'InitRaised']


def requirements(tier):
    q = tier == 'quick'
    return {'loads': 60000 if q else 800000,
            'reached_yatiml': 30000 if q else 400000,
            'injected_faults': 8000 if q else 100000,
            'raised_recognition': 20000 if q else 250000,
            'raised_yaml': 3000 if q else 40000,
            'soup_texts': 5000 if q else 60000,
            'long_lived_function_calls': 6000 if q else 25000}


def judge(ctx, spec, text, kind, x, case, origin, fault=None):
    if kind == 'ok':
        ctx.count('returned')
        return
    if isinstance(x, yatiml.RecognitionError):
        ctx.count('raised_recognition')
        return
    if isinstance(x, yaml.YAMLError):
        ctx.count('raised_yaml')
        return
    site = H.exc_site(x)
    if fault is not None:
        feat = 'injected-fault-in-%s' % fault
    else:
        feat = H.main_feature(text)
        mf = H.model_features(spec)
        if 'sabotaging-savorize' in mf and feat == 'plain-document':
            feat = 'sabotaging-savorize'
    ctx.violation(
        'C08 escape %s %s feature=%s' % (type(x).__name__, site, feat),
        'load raised %s: %s (innermost library frame %s) for document %r; '
        'model features %s' % (type(x).__name__, str(x)[:200], site,
                               text[:200], ','.join(H.model_features(spec))),
        case)


def run_case(ctx, spec, text, meta=None, faults=True):
    m = H.model_of(spec)
    case = {'spec': spec, 'text': text}
    try:
        load = m.load_fn()
    except Exception:
        ctx.count('load_function_creation_failed')
        ctx.case(case, False)
        return
    origin = (meta or {}).get('origin', 'replay')
    H.prior_partial_use(ctx, m, text, 5)
    m.reset()
    kind, x = H.run_load(load, text)
    ctx.count('loads')
    if origin in ('soup', 'unicode', 'splice', 'cycle'):
        ctx.count('soup_texts')
    reached = bool(m.events) or kind == 'ok' or isinstance(
        x, yatiml.RecognitionError) or (
            kind == 'err' and H.exc_site(x).startswith('yatiml.'))
    if reached:
        ctx.count('reached_yatiml')
    judge(ctx, spec, text, kind, x, case, origin)
    ctx.case([spec, text], reached)
    if len(ctx.samples) < 3 and origin in ('soup', 'splice') and reached:
        ctx.sample({'origin': origin, 'text': text[:200],
                    'doc_type': spec['doc_type'],
                    'outcome': kind if kind == 'ok' else type(x).__name__},
                   origin)
    # fault enumeration in user code
    ncalls = m._user_calls
    if not faults or ncalls == 0 or ncalls > 12:
        return
    sites = [e[2] for e in m.events]
    for i in range(1, ncalls + 1):
        for exc in FAULT_EXCS:
            fcase = dict(case, fault=[i, exc])
            m.reset()
            m.fault = (i, exc, ('init', 'strinit'))
            kind, x = H.run_load(load, text)
            fired = m._user_calls >= i
            m.fault = None
            if not fired:
                continue
            ctx.count('injected_faults')
            judge(ctx, spec, text, kind, x, fcase, origin,
                  fault='constructor')
            ctx.case([spec, text, i, exc], True)


def run_fault(ctx, spec, text, i, exc):
    m = H.model_of(spec)
    load = m.load_fn()
    m.reset()
    m.fault = (i, exc, ('init', 'strinit'))
    kind, x = H.run_load(load, text)
    m.fault = None
    judge(ctx, spec, text, kind, x, {'spec': spec, 'text': text,
                                      'fault': [i, exc]}, 'replay',
          fault='constructor')


def cap(text):
    return text[:4096]


def shard(ctx):
    if ctx.shard == 3:
        annotation_spellings(ctx)
    if ctx.shard < 3:
        long_lived_function(ctx, ctx.shard, ctx.budget(2500 * 16,
                                                       10000 * 16))
    n_models = ctx.budget(6000, 80000)
    for i in range(n_models):
        profile = 'free' if ctx.rng.random() < 0.7 else 'unamb'
        st = W.Stream(ctx, profile, mutants=3, soup=4,
                      str_classes=('look', 'uni', 'sur'))
        spec, m = st.new_model()
        if spec is None:
            continue
        # savorizers that raise SeasoningError are part of the model menu
        for text, meta in st.cases(spec, m, n_values=2):
            run_case(ctx, spec, cap(text), meta,
                     faults=meta.get('origin') in ('valid', 'mutant')
                     and ctx.rng.random() < 0.35)


LONG_DOCS = ['a: 1\nb: 2.5\nc: true\nd: 2001-12-14\ne: [x, 0x1F, ~]\n',
             '[1, 2, 3]\n', 'x: !!int abc\n', '{a: [1, {b: 2.0}]}\n',
             'a: {b: {c: {d: [1, 2, {e: false}]}}}\n', 'k: &a [1]\nl: *a\n',
             '- 1\n- 1.5\n- false\n- 2001-12-14 21:59:43.10 -5\n', '1\n']


def long_lived_function(ctx, which, n_calls):
    """One load function used for a long time: the statement holds for
    its thousandth call as for its first.  (Every other case here makes a
    fresh function per model.)"""
    from typing import Any, Dict, List, Union
    spec = {'classes': [], 'doc_type': 'any', 'long_lived': which}
    if which == 0:
        load = yatiml.load_function()
    elif which == 1:
        load = yatiml.load_function(Union[Dict[str, Any], List[Any], int])
    else:
        class LongLived:
            def __init__(self, a: int, b: float = 1.0, c: bool = False,
                         e: Any = None) -> None:
                self.a = a
        load = yatiml.load_function(Union[LongLived, List[Any], int],
                                    LongLived)
    for i in range(n_calls):
        text = LONG_DOCS[i % len(LONG_DOCS)]
        kind, x = H.run_load(load, text)
        ctx.count('long_lived_function_calls')
        if kind == 'err' and not isinstance(
                x, (yatiml.RecognitionError, yaml.YAMLError)):
            ctx.violation(
                'C08 escape %s %s feature=long-lived-function' % (
                    type(x).__name__, H.exc_site(x)),
                'call number %d of one load function raised %s: %s for '
                'document %r' % (i + 1, type(x).__name__, str(x)[:200],
                                 text), {'spec': spec, 'text': text,
                                         'long_lived': [which, i + 1]})
            return
    ctx.case(['long-lived', which], True)


def annotation_spellings(ctx):
    """Parameter annotations the library lists as supported in spellings
    the model generator does not produce: a bare None (for NoneType), alone
    and inside generics."""
    from typing import Any, Dict, List, Optional, Union

    class N1:
        def __init__(self, x: None, y: int = 1) -> None:
            self.x = x

    class N2:
        def __init__(self, x: Union[None, int], y: List[None],
                     z: Dict[str, None] = None) -> None:
            self.x = x

    class N3:
        def __init__(self, x: type(None)) -> None:
            self.x = x
    docs = ['x: null\n', 'x: ~\ny: 2\n', 'x:\n', 'x: 1\n', 'x: [1]\n', '{}\n',
            'x: null\ny: [~, null]\n', 'x: 3\ny: []\nz: {a: ~}\n',
            'x: null\ny: [1]\n', 'x: !!null ""\n', 'x: "null"\n']
    for cls in (N1, N2, N3):
        load = yatiml.load_function(cls)
        for text in docs:
            kind, x = H.run_load(load, text)
            ctx.count('annotation_spelling_loads')
            if kind == 'err' and not isinstance(
                    x, (yatiml.RecognitionError, yaml.YAMLError)):
                ctx.violation(
                    'C08 escape %s %s feature=annotation-bare-None' % (
                        type(x).__name__, H.exc_site(x)),
                    'class %s (parameter annotated None / NoneType): '
                    'document %r raised %s: %s' % (
                        cls.__name__, text, type(x).__name__, str(x)[:200]),
                    {'annotation_spellings': True, 'text': text})
    ctx.case(['annotation-spellings'], True)


def on_shard_crash(i, rc, tail, problems):
    # a dying shard is a witness of a crash inside load (C08/C18); it is
    # reported as inconclusive with the faulthandler tail so that it is seen
    pass


def replay(ctx, case):
    if case.get('annotation_spellings'):
        annotation_spellings(ctx)
    elif case.get('long_lived'):
        long_lived_function(ctx, case['long_lived'][0],
                            case['long_lived'][1] + 10)
    elif case.get('fault'):
        run_fault(ctx, case['spec'], case['text'], case['fault'][0],
                  case['fault'][1])
    else:
        run_case(ctx, case['spec'], case['text'], faults=False)
