"""C07, class-model part: values of generated unambiguous class models whose
projection is JSON-compatible (tree-shaped, finite floats, string keys) are
dumped with the model's own dumps_json function under a rotating
configuration; the text is judged by the same oracle as plain data
(checks/c07.check_text) against the JSON projection computed by the harness,
and loaded back through the model's load function where the round-trip clause
applies."""
import math

from checks import c05
from vlib import docs as D
from vlib import harness as H
from vlib import modelgen as G
from vlib import plain
from vlib import values as V


def json_compatible(data):
    if isinstance(data, float):
        return math.isfinite(data)
    if isinstance(data, dict):
        return all(isinstance(k, str) and json_compatible(v)
                   for k, v in data.items())
    if isinstance(data, list):
        return all(json_compatible(v) for v in data)
    return True


def has_dates(data):
    import datetime
    if isinstance(data, (datetime.date, datetime.datetime)):
        return True
    if isinstance(data, dict):
        return any(has_dates(v) for v in data.values())
    if isinstance(data, list):
        return any(has_dates(v) for v in data)
    return False


def run_value(ctx, spec, t, v, indent, ensure_ascii, check_text, report_hook,
              HOOK):
    m = H.model_of(spec)
    try:
        data = D.proj(m, v)
    except (ValueError, TypeError, RecursionError):
        ctx.count('projection_failed')
        return
    if not json_compatible(data):
        ctx.count('model_values_not_json_compatible')
        return
    case = {'kind': 'model', 'spec': spec, 'type': t,
            'value': V.encode_value(v), 'indent': indent,
            'ensure_ascii': ensure_ascii}
    try:
        dumps = m.dumps_json_fn()
    except Exception:
        ctx.count('dumps_function_creation_failed')
        return
    ctx.count('dumps')
    ctx.count('model_values')
    nbroken = len(HOOK.broken)
    try:
        text = dumps(v, indent=indent, ensure_ascii=ensure_ascii)
    except Exception as e:
        ctx.violation('C07 model dumps-raised %s' % type(e).__name__,
                      'dumps_json raised %s: %s for a value of %r' % (
                          type(e).__name__, str(e)[:200], t), case)
        ctx.case(case, True)
        return
    report_hook(ctx, nbroken, case)
    ok = check_text(ctx, text, D.jproj(data), indent, ensure_ascii, case,
                    label='model')
    ctx.case(case, V.has_instance(v))
    if getattr(v, '_v_args', None) is not None:
        ctx.count('model_class_values')
    if ok and not has_dates(data):
        strs = list(plain.walk_strings(data))
        if all(plain.is_printable_bmp(s) and len(s) <= 200 for s in strs):
            try:
                load = m.load_fn(t)
            except Exception:
                return
            ctx.count('roundtrip_loads')
            ctx.count('model_roundtrip_loads')
            kind, back = H.run_load(load, text)
            if kind != 'ok':
                ctx.violation(
                    'C07 model roundtrip load-raised %s' % type(
                        back).__name__,
                    'loading the JSON text raised %s: %s; text=%r' % (
                        type(back).__name__, str(back)[-200:], text[:200]),
                    case)
            elif not V.vsame(back, v) and any(
                    c.get('sweeten') and ['remove_defaults'] in c['sweeten']
                    for c in spec['classes']) and c05.json_nosign(
                        V.vdigest(back)) == c05.json_nosign(V.vdigest(v)):
                # default-value sweetening compares with ==: -0.0 is dropped
                # for a default of 0.0 and comes back as 0.0 (the model's
                # doing, as in C05: not judged)
                ctx.count('signed_zero_dropped_as_default_(not_judged)')
            elif not V.vsame(back, v):
                ctx.violation(
                    'C07 model roundtrip value-differs',
                    'load(dumps_json(v)) != v: text=%r' % text[:200], case)
    if len(ctx.samples) < 5 and getattr(v, '_v_args', None) is not None:
        ctx.sample({'origin': 'model', 'type': t, 'indent': indent,
                    'ensure_ascii': ensure_ascii, 'text': text[:300]},
                   'model')


def shard(ctx, check_text, report_hook, HOOK, configs):
    rng = ctx.rng
    for _ in range(ctx.budget(2500, 40000)):
        spec = G.gen_model(rng, 'unamb')
        try:
            m = H.model_of(spec)
        except Exception:
            ctx.count('model_build_failed')
            continue
        spec = H.clean_spec(spec)
        g = V.Gen(m, rng, ('look', 'uni', 'json'), finite=True, share=0.0)
        types = [spec['doc_type']] + [
            ['cls', c['name']] for c in spec['classes']]
        for _ in range(4):
            t = rng.choice(types) if rng.random() < 0.5 else spec['doc_type']
            try:
                v = g.value(t)
            except (V.NoValue, RecursionError):
                ctx.count('no_value_for_type')
                continue
            indent, asc = rng.choice(configs)
            run_value(ctx, spec, t, v, indent, asc, check_text, report_hook,
                      HOOK)
    quiet_family(ctx, check_text, report_hook, HOOK, configs)


def quiet_family(ctx, check_text, report_hook, HOOK, configs):
    """A class that reports only the attributes that differ from their
    defaults through _yatiml_attributes(): with everything at its default
    that is an empty mapping, a value like any other."""
    rng = ctx.rng
    spec = {'classes': [
        {'name': 'Quiet', 'kind': 'plain', 'attributes_hook': 'nondefault',
         'params': [{'name': 'q_a', 'type': 'int', 'default': 1},
                    {'name': 'q_b', 'type': 'str', 'default': 'x'},
                    {'name': 'q_c', 'type': ['list', 'int'],
                     'default': None}]},
        {'name': 'Box', 'kind': 'plain',
         'params': [{'name': 'box_id', 'type': 'int'},
                    {'name': 'box_q', 'type': ['cls', 'Quiet']},
                    {'name': 'box_l', 'type': ['list', ['cls', 'Quiet']]},
                    {'name': 'box_d', 'type': ['dict', 'str',
                                               ['cls', 'Quiet']]}]}],
        'doc_type': ['cls', 'Box']}
    spec['classes'][0]['params'][2]['type'] = ['opt', ['list', 'int']]
    try:
        m = H.model_of(spec)
    except Exception as e:
        ctx.note('quiet family: %r' % (e,))
        return
    spec = H.clean_spec(spec)
    Q, Box = m.classes['Quiet'], m.classes['Box']

    def q():
        r = rng.random()
        if r < 0.5:
            return Q(q_a=1, q_b='x', q_c=None)          # all defaults
        return Q(q_a=rng.choice([1, 2]), q_b=rng.choice(['x', 'y']),
                 q_c=rng.choice([None, [], [1]]))
    for _ in range(ctx.budget(320, 3200)):
        indent, asc = rng.choice(configs)
        ctx.count('quiet_family_values')
        for t, v in ((['cls', 'Quiet'], q()),
                     (['list', ['cls', 'Quiet']], [q(), q()]),
                     (['cls', 'Box'], Box(box_id=1, box_q=q(), box_l=[q()],
                                          box_d={'k': q()}))):
            run_value(ctx, spec, t, v, indent, asc, check_text, report_hook,
                      HOOK)


def replay(ctx, case, check_text, report_hook, HOOK):
    m = H.model_of(case['spec'])
    run_value(ctx, case['spec'], case['type'],
              V.decode_value(m, case['value']), case['indent'],
              case['ensure_ascii'], check_text, report_hook, HOOK)
