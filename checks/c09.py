"""C09 - plain scalars are typed by YAML 1.2 rules for booleans and floats.

Monitor: the implicit-resolver table of a *live* loader instance made by
yatiml.load_function() is queried for every enumerated string and compared
with hand-written YAML 1.2 scanners (vlib/scalars.py); every string that either
side calls float/bool, every near miss and a sample of the rest is then loaded
end to end (top level, block mapping value, flow sequence item) and the type
and value of what was constructed are compared with the resolved tag.
"""
import enum
import itertools
import re
import math
from typing import Any, Dict, List, Optional, Union

import yaml

import yatiml
from vlib import scalars as S

PROPERTY = 'C09'
RULE = ('strings: all strings over the 14-symbol number alphabet '
        '"019+-.eE_:xnaf" up to length 5 (quick) / 6 (thorough) and all '
        'strings over the 16 boolean letters up to length 5/6 (exhaustive '
        'resolver comparison), every string within edit distance 1-2 of a '
        'valid float/bool spelling or a YAML 1.1 word, valid+suffix / '
        'prefix+valid splices and grammar-biased random longer strings. '
        'A case is one string; it is non-trivial when the resolver or the '
        'reference classifies it as float/bool or it is a near miss, and it '
        'was also loaded end to end; distinct = distinct strings.')
ASSUMPTIONS = [
    'PyYAML scanner/parser/composer and its int/null/timestamp resolvers and '
    'scalar constructors are trusted (C09 leaves those to PyYAML)',
    'signed .nan (e.g. -.nan) is unspecified by the statement and not judged',
    'the every-length half of the quantifier (automata equivalence on the '
    'regex table) is a static argument and is NOT decided by this run: only '
    'strings up to the length bound plus sampled longer ones are',
]
EXHAUSTIVE = True

NUM_ALPHA = '019+-.eE_:xnaf'
BOOL_ALPHA = 'trufalseTRUFALSE'
BOOL_ALPHA = ''.join(sorted(set(BOOL_ALPHA)))

YAML11_WORDS = ['y', 'Y', 'yes', 'Yes', 'YES', 'n', 'N', 'no', 'No', 'NO',
                'on', 'On', 'ON', 'off', 'Off', 'OFF', 'true', 'True', 'TRUE',
                'false', 'False', 'FALSE', '~', 'null', 'Null', 'NULL']
FLOAT_SEEDS = ['1.5', '1.', '.5', '1e5', '1E5', '1.5e5', '1.e5', '.5e-3',
               '+1.5', '-1.5', '-.5e+10', '0.0', '1e+5', '1e-5', '12.25',
               '.inf', '.Inf', '.INF', '-.inf', '+.INF', '.nan', '.NaN',
               '.NAN', '1_000.5', '1:30.5', '190:20:30.15', '1.5e', '1e',
               '0x1.8p3', '1,5', 'inf', 'nan', 'NaN', 'Infinity', '1e5.5',
               '\u096c.\u096b', '\uff11.\uff15', '1.5\u0660']


def requirements(tier):
    if tier == 'quick':
        return {'resolver_queries': 500000, 'ref_float': 5000, 'ref_bool': 6,
                'e2e_loads': 20000, 'near_miss_e2e': 3000,
                'custom_resolver_queries': 10000, 'e2e_wraptop': 5000,
                'bucket_tTfF': 4, 'bucket_number': 10}
    return {'resolver_queries': 5000000, 'ref_float': 35000, 'ref_bool': 6,
            'e2e_loads': 100000, 'near_miss_e2e': 10000,
            'custom_resolver_queries': 30000, 'e2e_wraptop': 15000,
            'bucket_tTfF': 4, 'bucket_number': 10}


class Wrap:
    """A user class with a short form: any scalar stands for
    {value: <that scalar>}.  Its savorizer sees the scalar as it was resolved
    and records the Python type Node.get_value() gives for it."""
    seen = []

    def __init__(self, value: Any) -> None:
        self.value = value

    @classmethod
    def _yatiml_recognize(cls, node):
        pass

    @classmethod
    def _yatiml_savorize(cls, node):
        if node.is_scalar():
            kinds = [t.__name__ for t in (bool, float, int, str)
                     if node.is_scalar(t)]
            try:
                v = node.get_value()
            except yatiml.RecognitionError:
                raise
            Wrap.seen.append((kinds, type(v).__name__))
            node.make_mapping()
            node.set_attribute('value', v)


class Tri(enum.Enum):
    fast = 1
    slow = 2


class EnumSide:
    """One alternative of a Union: `flag` is an enum."""
    def __init__(self, flag: Tri, level: int) -> None:
        self.flag = flag


class LooseSide:
    """The other alternative: `flag` is a bool, a float or a string.  Trying
    the enum alternative first must not change how `flag` is read here."""
    def __init__(self, flag: Union[bool, float, str], name: str) -> None:
        self.flag = flag


class BoolNames(enum.Enum):
    """An enum whose members are called like YAML booleans."""
    true = 1
    false = 2
    TRUE = 3
    other = 4


class Both:
    """`first` takes anything, `second` the enum: for the aliased family."""
    def __init__(self, first: Any, second: BoolNames,
                 third: Union[bool, float, str] = '') -> None:
        self.first = first
        self.second = second
        self.third = third


OCTAL = re.compile(r'^0o[0-7]+$')


class Env:
    """Load functions and a loader instance to query.

    mode 'fresh': nothing special.  'custom-before': the loader class got an
    implicit resolver of its own (PyYAML's add_implicit_resolver, for 0o17
    integers) before its first load.  'custom-after': the same, added after
    the first load.  Strings over the alphabets used here never match the
    added pattern, so the expectations are the same in every mode."""

    def __init__(self, mode='fresh'):
        self.mode = mode
        self.load_any = yatiml.load_function()
        self.load_map = yatiml.load_function(Dict[str, Any])
        self.load_seq = yatiml.load_function(List[Any])
        self.load_wrap = yatiml.load_function(Wrap)
        self.load_wraps = yatiml.load_function(Dict[str, Wrap], Wrap)
        self.load_alt = yatiml.load_function(
            Union[EnumSide, LooseSide], EnumSide, LooseSide, Tri)
        self.load_alt2 = yatiml.load_function(
            Union[LooseSide, EnumSide], LooseSide, EnumSide, Tri)
        # bool_union_fix without bool next to it stands for bool all the same
        self.load_buf = yatiml.load_function(
            Union[int, float, str, yatiml.bool_union_fix])
        self.load_bufs = yatiml.load_function(
            Dict[str, Optional[yatiml.bool_union_fix]])
        self.load_both = yatiml.load_function(Both, BoolNames)
        fns = (self.load_any, self.load_map, self.load_seq, self.load_wrap,
               self.load_wraps, self.load_alt, self.load_alt2, self.load_buf,
               self.load_bufs, self.load_both)
        if mode == 'custom-after':
            for f in fns:
                try:
                    f('[1, a, 1.5, true]')
                except yatiml.RecognitionError:
                    pass
        if mode != 'fresh':
            for f in fns:
                f.loader.add_implicit_resolver(S.TAG_INT, OCTAL, ['0'])
        self.loader = self.load_any.loader('')
        self.resolve = self.loader.resolve

    def tag_of(self, s):
        return self.resolve(yaml.ScalarNode, s, (True, False))


_env = {}


def get_env(mode='fresh'):
    if mode not in _env:
        _env[mode] = Env(mode)
    return _env[mode]


def plain_in_context(text, s, pick):
    """True iff `text` composes (stock PyYAML) to a plain scalar == s."""
    try:
        node = yaml.compose(text, Loader=yaml.SafeLoader)
    except yaml.YAMLError:
        return False
    try:
        node = pick(node)
    except Exception:
        return False
    return (isinstance(node, yaml.ScalarNode) and node.style is None
            and node.value == s)


CONTEXTS = [
    ('top', lambda s: s, lambda n: n, lambda v: v, 'load_any'),
    ('mapval', lambda s: 'k: ' + s + '\n',
     lambda n: n.value[0][1] if isinstance(n, yaml.MappingNode)
     and len(n.value) == 1 else None,
     lambda v: v['k'], 'load_map'),
    ('flowseq', lambda s: '[' + s + ']',
     lambda n: n.value[0] if isinstance(n, yaml.SequenceNode)
     and len(n.value) == 1 else None,
     lambda v: v[0], 'load_seq'),
    # a user class whose short form is any scalar: the scalar reaches the
    # class's savorizer typed as it was resolved
    ('wraptop', lambda s: s, lambda n: n, lambda v: v.value, 'load_wrap'),
    ('wrapval', lambda s: 'k: ' + s + '\n',
     lambda n: n.value[0][1] if isinstance(n, yaml.MappingNode)
     and len(n.value) == 1 else None,
     lambda v: v['k'].value, 'load_wraps'),
    # an attribute of a class that is one alternative of a Union whose other
    # alternative reads the same attribute as an enum
    ('wrapalt', lambda s: 'flag: ' + s + '\nname: x\n',
     lambda n: n.value[0][1] if isinstance(n, yaml.MappingNode)
     and len(n.value) == 2 else None,
     lambda v: v.flag, 'load_alt'),
    ('wrapalt2', lambda s: 'flag: ' + s + '\nname: x\n',
     lambda n: n.value[0][1] if isinstance(n, yaml.MappingNode)
     and len(n.value) == 2 else None,
     lambda v: v.flag, 'load_alt2'),
    ('wrapbuf', lambda s: s, lambda n: n, lambda v: v, 'load_buf'),
]


def feature(s, ref_is, pred):
    """Input-feature predicate used in mechanism keys."""
    if '_' in s:
        return 'underscore'
    if ':' in s:
        return 'sexagesimal-colon'
    if has_trailing_or_leading_space(s):
        return 'surrounding-space'
    if S.has_valid_prefix(s, pred):
        return 'valid-prefix-plus-suffix'
    if s.lower() in ('y', 'yes', 'n', 'no', 'on', 'off'):
        return 'yaml11-word'
    if s.lower() in ('true', 'false'):
        return 'case-variant'
    return 'other'


def has_trailing_or_leading_space(s):
    return s != s.strip()


def check_resolver(ctx, s, env):
    """Compare the live resolver with the reference. Returns interesting?"""
    ctx.count('resolver_queries')
    tag = env.tag_of(s)
    rf, rb = S.is_float12(s), S.is_bool12(s)
    sfx = '' if env.mode == 'fresh' else \
        ' loader-class-with-own-implicit-resolver/' + env.mode
    if rf:
        ctx.count('ref_float')
    if rb:
        ctx.count('ref_bool')
    if s[:1] in 'tTfF':
        ctx.count('bucket_tTfF')
    elif s[:1] in '0123456789+-.':
        ctx.count('bucket_number')
    if S.is_signed_nan(s):
        ctx.count('unspecified_signed_nan')
        return False, tag
    if tag == S.TAG_FLOAT and not rf:
        ctx.violation(
            'C09 resolver float-overaccept feature=%s' % feature(
                s, rf, S.is_float12) + sfx,
            'plain scalar %r resolves to float but is not a YAML 1.2 float'
            % s, {'s': s, 'mode': env.mode})
    elif tag != S.TAG_FLOAT and rf:
        ctx.violation(
            'C09 resolver float-underaccept got=%s' % tag.rsplit(':', 1)[-1] + sfx,
            'plain scalar %r is a YAML 1.2 float but resolves to %s'
            % (s, tag), {'s': s, 'mode': env.mode})
    if tag == S.TAG_BOOL and not rb:
        ctx.violation(
            'C09 resolver bool-overaccept feature=%s' % feature(
                s, rb, S.is_bool12) + sfx,
            'plain scalar %r resolves to bool but is not a YAML 1.2 bool'
            % s, {'s': s, 'mode': env.mode})
    elif tag != S.TAG_BOOL and rb:
        ctx.violation(
            'C09 resolver bool-underaccept got=%s' % tag.rsplit(':', 1)[-1] + sfx,
            'plain scalar %r is a YAML 1.2 bool but resolves to %s'
            % (s, tag), {'s': s, 'mode': env.mode})
    return (rf or rb or tag in (S.TAG_FLOAT, S.TAG_BOOL)), tag


def check_e2e(ctx, s, env, near=False):
    """Load s as a plain scalar in three contexts, compare with the tag."""
    tag = env.tag_of(s)
    rf, rb = S.is_float12(s), S.is_bool12(s)
    if S.is_signed_nan(s):
        return
    done = False
    wrap_too = env.mode == 'fresh' and (
        rf or rb or tag in (S.TAG_FLOAT, S.TAG_BOOL) or len(s) % 4 == 0)
    for name, mk, pick, unwrap, fn in CONTEXTS:
        if name.startswith('wrap') and not wrap_too:
            continue
        text = mk(s)
        if not plain_in_context(text, s, pick):
            ctx.count('e2e_not_plain_' + name)
            continue
        done = True
        ctx.count('e2e_loads')
        ctx.count('e2e_' + name)
        try:
            v = unwrap(getattr(env, fn)(text))
            exc = None
        except Exception as e:      # noqa
            v, exc = None, e
        case = {'s': s, 'context': name, 'mode': env.mode}
        if name == 'wrapbuf':
            name = name + ' (Union with bool_union_fix but without bool)'
        elif name.startswith('wrapalt'):
            name = name + ' (attribute next to an enum alternative)'
        elif name.startswith('wrap'):
            name = name + ' (short form of a user class)'
        if env.mode != 'fresh':
            name = name + ' loader-class-with-own-implicit-resolver/' + \
                env.mode
        if rf:
            want = S.float12_value(s)
            if exc is not None or not S.same_float(v, want):
                ctx.violation(
                    'C09 e2e float-not-constructed got=%s' % outcome(v, exc),
                    '%r (%s) is a YAML 1.2 float but loading gave %s' % (
                        s, name, outcome(v, exc, True)), case)
        elif rb:
            want = s in S.TRUE_WORDS
            if exc is not None or v is not want:
                ctx.violation(
                    'C09 e2e bool-not-constructed got=%s' % outcome(v, exc),
                    '%r (%s) is a YAML 1.2 bool but loading gave %s' % (
                        s, name, outcome(v, exc, True)), case)
        else:
            if exc is not None:
                if tag == S.TAG_INT and isinstance(exc, ValueError):
                    # PyYAML's own int typing/construction (left to PyYAML)
                    ctx.count('pyyaml_int_ctor_quirk')
                elif tag == S.TAG_TS and isinstance(exc, ValueError):
                    ctx.count('pyyaml_timestamp_ctor_quirk')
                elif isinstance(exc, (yaml.YAMLError,
                                      yatiml.RecognitionError)):
                    ctx.count('e2e_rejected')
                else:
                    ctx.violation(
                        'C09 e2e resolved-vs-constructed tag=%s exc=%s '
                        'feature=%s' % (
                            tag.rsplit(':', 1)[-1], type(exc).__name__,
                            feature(s, False, S.is_float12 if tag
                                    == S.TAG_FLOAT else S.is_bool12)),
                        '%r (%s) is neither float nor bool; it resolved to %s '
                        'and construction raised %s: %s' % (
                            s, name, tag, type(exc).__name__, exc), case)
            elif isinstance(v, (float, bool)):
                ctx.violation(
                    'C09 e2e non-float/bool string typed as %s feature=%s' % (
                        type(v).__name__, feature(
                            s, False, S.is_float12 if isinstance(v, float)
                            else S.is_bool12)),
                    '%r (%s) is neither a YAML 1.2 float nor bool but loaded '
                    'as %r' % (s, name, v), case)
            elif tag == S.TAG_STR and v != s:
                ctx.violation(
                    'C09 e2e str-resolved value differs',
                    '%r (%s) resolved to str but loaded as %r' % (s, name, v),
                    case)
    if done:
        if near:
            ctx.count('near_miss_e2e')
        ctx.case(s, nontrivial=True)
    else:
        ctx.case(s, nontrivial=False)


def check_two_styles(ctx, s, env):
    """The same text quoted and plain in one document, both orders: the
    quoted one is a string, the plain one is typed by the resolver (a
    resolution remembered per text would confuse them)."""
    if not s or s != s.strip() or any(c in s for c in '\'"\\\n#,[]{}:&*!|>%@`'):
        return
    tag = env.tag_of(s)
    if tag not in (S.TAG_FLOAT, S.TAG_BOOL):
        return
    for text, qi in (('["%s", %s]\n' % (s, s), 0), ('[%s, "%s"]\n' % (s, s), 1),
                     ("[%s, '%s', %s]\n" % (s, s, s), 1)):
        ctx.count('e2e_two_styles')
        try:
            v = env.load_seq(text)
        except Exception as e:      # noqa
            ctx.violation(
                'C09 e2e two-styles load-raised %s' % type(e).__name__,
                'document %r raised %s: %s' % (text, type(e).__name__,
                                              str(e)[-120:]),
                {'s': s, 'two': 1})
            return
        want_t = float if tag == S.TAG_FLOAT else bool
        for i, x in enumerate(v):
            if i == qi:
                ok = type(x) is str and x == s
            else:
                ok = type(x) is want_t
            if not ok:
                ctx.violation(
                    'C09 e2e two-styles %s-item-typed-as-%s' % (
                        'quoted' if i == qi else 'plain', type(x).__name__),
                    'document %r loads as %r' % (text, v), {'s': s, 'two': 1})
                return


def check_nonspecific(ctx, s, env):
    """`! "<s>"`: PyYAML resolves a scalar with the non-specific tag like a
    plain one, whatever characters it holds."""
    from vlib import docs as D
    text = '! ' + D._esc(s) + '\n'
    rf, rb = S.is_float12(s), S.is_bool12(s)
    if rf or rb or S.ref_resolve_plain(s) != S.TAG_STR:
        return
    ctx.count('e2e_nonspecific_tag')
    try:
        v = env.load_any(text)
    except Exception as e:      # noqa
        ctx.violation(
            'C09 e2e non-float/bool string fails to load %s feature=%s' % (
                type(e).__name__, feature(s, False, S.is_float12)),
            'document %r (string %r with the non-specific tag) raised %s: %s'
            % (text, s, type(e).__name__, str(e)[-150:]), {'s': s, 'ns': 1})
        return
    if type(v) is not str or v != s:
        ctx.violation(
            'C09 e2e non-float/bool string typed as %s feature=%s' % (
                type(v).__name__, feature(s, False, S.is_float12)),
            'document %r (string %r with the non-specific tag) loads as %r'
            % (text, s, v), {'s': s, 'ns': 1})


def check_aliased(ctx, env):
    """One anchored plain scalar, referenced where the model says Any / bool
    and where it says an enum with members called like booleans: each
    reference is typed by its own position."""
    for w in sorted(S.BOOL_WORDS) + ['other', '1.5', 'x']:
        for text, what in (
                ('first: &v %s\nsecond: *v\n' % w, 'anchor-first'),
                ('second: &v %s\nfirst: *v\n' % w, 'anchor-at-enum'),
                ('first: &v %s\nsecond: *v\nthird: *v\n' % w, 'three-uses'),
                ('third: &v %s\nsecond: *v\nfirst: *v\n' % w,
                 'three-uses-reversed')):
            ctx.count('aliased_scalar_loads')
            case = {'s': w, 'aliased': text, 'mode': env.mode}
            try:
                v = env.load_both(text)
            except yatiml.RecognitionError:
                if w in BoolNames.__members__:
                    ctx.violation(
                        'C09 e2e aliased-scalar rejected',
                        'document %r (the scalar names a member of the enum '
                        'and is acceptable at the other positions) was '
                        'rejected' % text, case)
                continue
            except Exception as e:      # noqa
                ctx.violation(
                    'C09 e2e aliased-scalar raised %s' % type(e).__name__,
                    'document %r raised %s: %s' % (text, type(e).__name__,
                                                   e), case)
                continue
            want = (w in S.TRUE_WORDS) if S.is_bool12(w) else (
                S.float12_value(w) if S.is_float12(w) else w)
            for attr in ('first', 'third'):
                got = getattr(v, attr)
                if attr == 'third' and 'third' not in text:
                    continue
                if type(got) is not type(want) or got != want:
                    ctx.violation(
                        'C09 e2e aliased-scalar typed-by-other-reference '
                        '(%s)' % what,
                        'document %r: %s is %r, expected %r (the plain '
                        'scalar %r at a position that is no enum)' % (
                            text, attr, got, want, w), case)
                    break
            if v.second is not BoolNames[w]:
                ctx.violation(
                    'C09 e2e aliased-scalar enum-reference wrong',
                    'document %r: second is %r' % (text, v.second), case)
    ctx.case(['aliased'], True)


def outcome(v, exc, verbose=False):
    if exc is not None:
        return type(exc).__name__ + (': %s' % exc if verbose else '')
    return (repr(v) if verbose else type(v).__name__)


def edits1(s, alphabet):
    out = set()
    for i in range(len(s) + 1):
        for c in alphabet:
            out.add(s[:i] + c + s[i:])
    for i in range(len(s)):
        out.add(s[:i] + s[i + 1:])
        for c in alphabet:
            out.add(s[:i] + c + s[i + 1:])
        if i + 1 < len(s):
            out.add(s[:i] + s[i + 1] + s[i] + s[i + 2:])
    out.discard(s)
    return out


def near_misses(depth2_sample, rng):
    seeds = FLOAT_SEEDS + YAML11_WORDS
    alpha = NUM_ALPHA + 'truefalsTRUEFALSyYoO~ \t"\'#,'
    near = set()
    for w in seeds:
        e1 = edits1(w, alpha)
        near |= e1
        e1 = sorted(e1)
        for x in rng.sample(e1, min(depth2_sample, len(e1))):
            near |= set(rng.sample(sorted(edits1(x, alpha)),
                                   min(40, len(edits1(x, alpha)))))
    # splices: valid+suffix, prefix+valid
    valid = [w for w in seeds if S.is_float12(w) or S.is_bool12(w)]
    junk = ['a', 'x', '.', '.3', 'e', '_', ':1', ' ', '0', 'ish', 'y', '-',
            '+', '1', 'E5', '.inf', 'true', 'False', '\u00a0', '\t']
    for w in valid:
        for j in junk:
            near.add(w + j)
            near.add(j + w)
            for w2 in valid[:8]:
                near.add(w + j + w2)
    return near


def random_long(rng):
    parts = ['', '+', '-', '1', '12', '0', '9', '.', '.5', '5.', 'e', 'E',
             'e5', 'E+5', 'e-12', '_', ':', ':30', 'x', 'inf', '.inf', '.nan',
             'true', 'False', 'TRUE', 'n', 'a', 'f', '000', '1234567890',
             '1e400', '0.' + '0' * 30 + '1', '9' * 25]
    k = rng.randint(2, 7)
    return ''.join(rng.choice(parts) for _ in range(k))


def enumerate_space(ctx, alphabet, maxlen):
    """All strings over alphabet with 1..maxlen symbols; this shard's part."""
    if ctx.shard == 0:
        yield ''
        for a in alphabet:
            yield a
    idx = 0
    for a in alphabet:
        for b in alphabet:
            mine = ctx.mine(idx)
            idx += 1
            if not mine:
                continue
            p = a + b
            yield p
            for n in range(1, maxlen - 1):
                for tup in itertools.product(alphabet, repeat=n):
                    yield p + ''.join(tup)


def shard(ctx):
    env = get_env()
    num_len = ctx.pick(5, 6)
    bool_len = ctx.pick(5, 6)
    rest_every = ctx.pick(40, 80)
    k = 0
    sampled = 0
    for alphabet, maxlen in ((NUM_ALPHA, num_len), (BOOL_ALPHA, bool_len)):
        for s in enumerate_space(ctx, alphabet, maxlen):
            interesting, tag = check_resolver(ctx, s, env)
            k += 1
            if (interesting and k % 3 == 0) or k % rest_every == 1:
                for mode in ('custom-before', 'custom-after')[
                        :1 if k % 4 else 2]:
                    env2 = get_env(mode)
                    ctx.count('custom_resolver_queries')
                    check_resolver(ctx, s, env2)
                    check_e2e(ctx, s, env2)
            if interesting:
                check_e2e(ctx, s, env)
                if len(ctx.samples) < 3:
                    ctx.sample({'s': s, 'resolved': tag,
                                'ref_float': S.is_float12(s),
                                'ref_bool': S.is_bool12(s)}, 'enumerated')
            elif k % rest_every == 0:
                check_e2e(ctx, s, env)
                sampled += 1
            else:
                ctx.case(s, nontrivial=False)
    # near misses: partitioned over shards by hash
    from vlib.runner import stable_hash
    import random
    nm = near_misses(ctx.pick(25, 120), random.Random(ctx.seed))
    for s in sorted(nm):
        if stable_hash(s) % ctx.nshards != ctx.shard:
            continue
        if '\n' in s or '\r' in s:
            continue
        check_resolver(ctx, s, env)
        check_e2e(ctx, s, env, near=True)
        if stable_hash(s + 'm') % 3 == 0:
            env2 = get_env(('custom-before', 'custom-after')[len(s) % 2])
            ctx.count('custom_resolver_queries')
            check_resolver(ctx, s, env2)
            check_e2e(ctx, s, env2)
        if len(ctx.samples) < 5:
            ctx.sample({'s': s, 'resolved': env.tag_of(s),
                        'ref_float': S.is_float12(s)}, 'near-miss')
    # values that are not plain scalars reach the same resolver table through
    # the non-specific tag "!" and through tag stripping below Any: line
    # breaks around a valid spelling must not be ignored by the patterns
    valid = [w for w in FLOAT_SEEDS + list(S.BOOL_WORDS)
             if S.is_float12(w) or S.is_bool12(w)]
    k = 0
    for w in valid:
        for s in (w + '\n', '\n' + w, w + '\r', w + '\r\n', w + '\n\n',
                  w + '\x85', w + '\u2028', ' ' + w, w + ' ', w + '\t',
                  w + '\n' + w, w + '\x0b', w + '\x0c'):
            k += 1
            if not ctx.mine(k):
                continue
            ctx.count('line_break_variants')
            check_resolver(ctx, s, env)
            check_nonspecific(ctx, s, env)
        if ctx.mine(k):
            check_two_styles(ctx, w, env)
    if ctx.shard == 0:
        for mode in ('fresh', 'custom-before'):
            check_aliased(ctx, get_env(mode))
    # signed .nan: whether it is a float is left open, but what it resolves
    # to must agree with what is constructed
    for k2, w in enumerate([sg + n for sg in '+-' for n in S.NAN_WORDS]):
        if not ctx.mine(k2):
            continue
        tag = env.tag_of(w)
        for text, pick in ((w + '\n', lambda v: v),
                           ('k: %s\n' % w, lambda v: v['k']),
                           ('[%s]\n' % w, lambda v: v[0])):
            ctx.count('signed_nan_consistency')
            try:
                v = pick(env.load_any(text))
            except Exception as e:      # noqa
                ctx.violation(
                    'C09 e2e resolved-vs-constructed signed-nan %s' % type(
                        e).__name__,
                    '%r resolves to %s but loading %r raised %s: %s' % (
                        w, tag, text, type(e).__name__, str(e)[-120:]),
                    {'s': w})
                break
            if (tag == S.TAG_FLOAT) != (type(v) is float) or (
                    tag == S.TAG_STR) != (type(v) is str):
                ctx.violation(
                    'C09 e2e resolved-vs-constructed signed-nan type',
                    '%r resolves to %s but loads as %r' % (w, tag, v),
                    {'s': w})
                break
    for _ in range(ctx.budget(100000, 1000000)):
        s = random_long(ctx.rng)
        interesting, tag = check_resolver(ctx, s, env)
        if interesting or ctx.rng.random() < 0.05:
            check_e2e(ctx, s, env)
            ctx.count('random_long_e2e')
        else:
            ctx.case(s, nontrivial=False)


def replay(ctx, case):
    env = get_env(case.get('mode', 'fresh'))
    check_resolver(ctx, case['s'], env)
    if case.get('aliased'):
        check_aliased(ctx, env)
    elif case.get('two'):
        check_two_styles(ctx, case['s'], env)
    elif case.get('ns'):
        check_nonspecific(ctx, case['s'], env)
    else:
        check_e2e(ctx, case['s'], env)
