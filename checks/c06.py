"""C06 - dumps are faithful, tag-free and ordered, and leave the object
untouched.

Monitors at the boundary of the callable returned by yatiml.dumps_function:
the text is parsed with stock PyYAML (events: exactly one document, no
explicit tag anywhere), read back with yaml.safe_load (a plain YAML 1.1
reader) and with an independent YAML 1.2 reader, and compared - ordered and
with exact types - with the projection of the object computed by the harness
(vlib/docs.py: proj); a deep snapshot of the object graph (identities, vars,
container contents) is taken before and after; the dump is repeated.
"""
import collections
import datetime
import re
import enum
import pathlib

import yaml

import yatiml
from vlib import docs as D
from vlib import harness as H
from vlib import modelgen as G
from vlib import models as M
from vlib import plain
from vlib import scalars as S
from vlib import values as V

PROPERTY = 'C06'
RULE = ('cases = (class model, value). Models: generated unambiguous and free '
        'models incl. _yatiml_extra, _yatiml_attributes, inheritance, '
        'dataclasses, enums, string-likes, sweetening from the hook menu. '
        'Values: generated values of the document type and of every '
        'registered class, with adversarial strings in every position kind '
        '(attribute, list item, dict key and value, extra attribute, '
        'string-like, Path), non-finite floats, dates/datetimes, OrderedDict, '
        'nested containers. Non-trivial: the value contains at least one '
        'class instance, enum, string-like or container; distinct by '
        '(model, value digest).')
ASSUMPTIONS = [
    'stock PyYAML parser/safe_load is "a plain YAML parser"; additionally a '
    'YAML 1.2 reading (own float/bool resolvers) must agree',
    'values are tree-shaped here (shared sub-objects are exercised by C05)',
    'the projection (constructor parameters in declaration order, then extra '
    'attributes or what _yatiml_attributes returns, enum by name, string-like '
    'and Path by str(), sweeten menu semantics) is written in vlib/docs.py '
    'from the documentation',
    'strings containing lone surrogates or characters PyYAML refuses to read '
    'back (non-printable per YAML) are not used in this check',
]


def requirements(tier):
    q = tier == 'quick'
    return {'dumps': 40000 if q else 500000,
            'class_values': 20000 if q else 250000,
            'events_checked': 600000 if q else 8000000,
            'purity_snapshots': 40000 if q else 500000,
            'sweetened_values': 4000 if q else 50000,
            'extra_values': 2500 if q else 30000,
            'stream_dumps': 20000 if q else 250000}


class RefLoader12(yaml.SafeLoader):
    """Plain reader with YAML 1.2 float/bool typing (independent scanners)."""


def _resolve12(self, kind, value, implicit):
    if kind is yaml.ScalarNode and implicit[0]:
        return S.ref_resolve_plain(value)
    return yaml.SafeLoader.resolve(self, kind, value, implicit)


RefLoader12.resolve = _resolve12


def snapshot(v, seen=None, depth=0):
    """Deep structural snapshot incl. identities of mutable objects."""
    if seen is None:
        seen = {}
    if depth > 60:
        return 'deep'
    if isinstance(v, (str, int, float, bool, type(None), datetime.date,
                      bytes, enum.Enum, pathlib.PurePath)) and \
            type(v).__module__ in ('builtins', 'datetime', 'pathlib') \
            or isinstance(v, enum.Enum):
        return plain.digest(v) if not isinstance(v, enum.Enum) else [
            'enum', type(v).__name__, v.name]
    if id(v) in seen:
        return ['ref', seen[id(v)]]
    seen[id(v)] = len(seen)
    if isinstance(v, dict):
        return [type(v).__name__, id(v),
                [[snapshot(k, seen, depth + 1), snapshot(x, seen, depth + 1)]
                 for k, x in v.items()]]
    if isinstance(v, (list, tuple)):
        return [type(v).__name__, id(v),
                [snapshot(x, seen, depth + 1) for x in v]]
    d = getattr(v, '__dict__', None)
    if d is not None:
        return ['obj', type(v).__name__, id(v),
                [[k, snapshot(x, seen, depth + 1)] for k, x in d.items()]]
    return ['other', type(v).__name__, repr(v)]


def readable_by_yaml(s):
    """PyYAML's reader rejects some characters in *unescaped* form; the
    dumper escapes them, so only lone surrogates are excluded."""
    return not plain.has_surrogate(s)


def strings_ok(data):
    return all(readable_by_yaml(s) for s in plain.walk_strings(data))


def check_dump(ctx, m, spec, v, dumps, case, label='C06'):
    """All C06 clauses for one value; returns the text or None."""
    want = D.proj(m, v)
    before = snapshot(v)
    m.reset()
    try:
        text = dumps(v)
    except Exception as e:
        ctx.violation('%s dumps-raised %s %s' % (label, type(e).__name__,
                                                 H.exc_site(e)),
                      'dumps raised %s: %s for %s' % (
                          type(e).__name__, str(e)[:200],
                          short(V.vdigest(v))), case)
        return None
    after = snapshot(v)
    ctx.count('dumps')
    ctx.count('purity_snapshots')
    if before != after:
        ctx.violation('%s object-modified-by-dump' % label,
                      'object graph changed by dumps: %s -> %s' % (
                          short(before), short(after)), case)
    try:
        text2 = dumps(v)
    except Exception as e:
        text2 = None
    if text2 != text:
        ctx.violation('%s repeated-dump-differs' % label,
                      'second dump differs: %r vs %r' % (
                          text[:200], (text2 or '')[:200]), case)
    if not isinstance(text, str):
        ctx.violation('%s result-not-str' % label, repr(type(text)), case)
        return None
    # events: one document, no explicit tags
    try:
        events = list(yaml.parse(text, Loader=yaml.SafeLoader))
    except yaml.YAMLError as e:
        ctx.violation('%s output-not-wellformed' % label,
                      'stock PyYAML cannot parse the dump: %s; text %r' % (
                          str(e)[:200], text[:300]), case)
        return text
    ndocs = sum(1 for e in events if isinstance(e, yaml.DocumentStartEvent))
    if ndocs != 1:
        ctx.violation('%s not-exactly-one-document' % label,
                      '%d documents in %r' % (ndocs, text[:200]), case)
    tag_keys = set()
    odd_offset = False
    for e in events:
        ctx.count('events_checked')
        if getattr(e, 'tag', None) is not None:
            key = '%s explicit-tag-in-output' % label
            if e.tag == 'tag:yaml.org,2002:timestamp' and isinstance(
                    e, yaml.ScalarEvent) and ODD_UTC_OFFSET.search(e.value):
                # a datetime whose UTC offset is no whole number of minutes
                # has no YAML timestamp spelling: PyYAML writes isoformat()
                # under an explicit tag (and cannot read that back)
                key += ' timestamp-with-utc-offset-not-in-whole-minutes'
                odd_offset = True
            if key not in tag_keys:
                tag_keys.add(key)
                ctx.violation(key, 'explicit tag %r on %r in dump %r' % (
                    e.tag, getattr(e, 'value', None), text[:300]), case)
        if isinstance(e, yaml.AliasEvent):
            ctx.count('alias_in_output')
    if odd_offset:
        # the plain readers raise on that scalar (PyYAML's timestamp
        # constructor): the same finding, not a second one
        ctx.count('readers_not_judged_(timestamp_with_odd_utc_offset)')
        return text
    # plain readers
    for name, ldr in (('yaml11', yaml.SafeLoader), ('yaml12', RefLoader12)):
        try:
            got = yaml.load(text, Loader=ldr)
        except Exception as e:
            ctx.violation('%s plain-reader-%s-raised %s' % (
                label, name, type(e).__name__),
                '%s reading of the dump raised %s: %s; text %r' % (
                    name, type(e).__name__, str(e)[:200], text[:300]), case)
            continue
        if not plain.same(got, want):
            ctx.violation(
                '%s %s-reading-differs-from-projection %s' % (
                    label, name, diff_kind(got, want)),
                '%s reading of the dump %r gives %s, projection is %s' % (
                    name, text[:300], short(plain.digest(got)),
                    short(plain.digest(want))), case)
    return text


ODD_UTC_OFFSET = re.compile(r'[-+]\d\d:\d\d:\d\d(\.\d+)?$')


def diff_kind(a, b, depth=0):
    """Mechanism-level description of the first difference."""
    if isinstance(a, dict) and isinstance(b, dict):
        ka, kb = list(a), list(b)
        if ka != kb:
            if sorted(map(repr, ka)) == sorted(map(repr, kb)):
                return 'key-order'
            if len(ka) != len(kb):
                return 'key-set'
            for x, y in zip(ka, kb):
                if not plain.same(x, y):
                    return 'key:' + diff_kind(x, y, depth + 1)
        for k in ka:
            if not plain.same(a[k], b[k]):
                return diff_kind(a[k], b[k], depth + 1)
        return 'dict'
    if isinstance(a, list) and isinstance(b, list):
        if len(a) != len(b):
            return 'list-length'
        for x, y in zip(a, b):
            if not plain.same(x, y):
                return diff_kind(x, y, depth + 1)
        return 'list'
    if type(a) is not type(b):
        return 'type-%s-vs-%s' % (type(a).__name__, type(b).__name__)
    return 'value-of-%s' % type(a).__name__


def short(x, n=240):
    s = repr(x)
    return s if len(s) <= n else s[:n] + '...'


def gen_values(ctx, spec, m, n, share=0.0, str_classes=('look', 'uni')):
    g = V.Gen(m, ctx.rng, str_classes, finite=False, share=share)
    types = [spec['doc_type']] + [
        ['cls', c['name']] for c in spec['classes']
        if c.get('registered', True)]
    out = []
    for _ in range(n):
        t = ctx.rng.choice(types) if ctx.rng.random() < 0.5 \
            else spec['doc_type']
        try:
            out.append((t, g.value(t)))
        except (V.NoValue, RecursionError):
            ctx.count('no_value_for_type')
    return out


def dumpable_model(spec):
    """Models whose values can be dumped by documented means: every class
    reachable from values is registered (dumping an unregistered class is a
    RepresenterError by design)."""
    return all(c.get('registered', True) for c in spec['classes'])


class _Sink:
    """A caller-opened stream that is no io.IOBase."""

    def __init__(self):
        self.parts = []

    def write(self, s):
        self.parts.append(s)

    def getvalue(self):
        return ''.join(self.parts)


def stream_dump(ctx, m, v, case, text, want):
    """The statement is about every dump function: what dump_function
    writes to an open stream is judged like the text dumps_function
    returns (it must be that text; if not, the reading says how it
    differs)."""
    import io
    try:
        dump = m.dump_fn()
    except Exception:
        ctx.count('dump_function_creation_failed')
        return
    for sink in (io.StringIO(), _Sink()):
        try:
            dump(v, sink)
        except Exception as e:
            ctx.violation('C06 dump-to-stream-raised %s' % type(e).__name__,
                          'dump(v, stream) raised %s: %s although dumps(v) '
                          'returned %r' % (type(e).__name__, str(e)[:200],
                                           text[:200]), case)
            return
        ctx.count('stream_dumps')
        got = sink.getvalue()
        if got == text:
            continue
        try:
            kind = diff_kind(yaml.load(got, Loader=yaml.SafeLoader), want)
        except Exception as e:
            kind = 'unreadable-%s' % type(e).__name__
        ctx.violation('C06 dump-to-stream-differs-from-dumps %s' % kind,
                      'dump(v, stream) wrote %r, dumps(v) returned %r' % (
                          got[:300], text[:300]), case)
        return


def run_value(ctx, spec, v, t=None):
    m = H.model_of(spec)
    case = {'spec': spec, 'value': V.encode_value(v)}
    try:
        dumps = m.dumps_fn()
    except Exception:
        ctx.count('dumps_function_creation_failed')
        return
    data = D.proj(m, v)
    if not strings_ok(data):
        ctx.count('skipped_unreadable_strings')
        return
    text = check_dump(ctx, m, spec, v, dumps, case)
    if text is not None and ctx.counters.get('dumps', 0) % 3 == 0:
        stream_dump(ctx, m, v, case, text, D.proj(m, v))
    nontrivial = V.has_instance(v)
    if getattr(v, '_v_args', None) is not None:
        ctx.count('class_values')
        c = m.cspecs[type(v).__name__]
        if any(m.cspecs[k].get('sweeten') for k in
               D._registered_bases_first(m, type(v).__name__)):
            ctx.count('sweetened_values')
        if c.get('extra'):
            ctx.count('extra_values')
    ctx.case(case, nontrivial)
    if text is not None and nontrivial and len(ctx.samples) < 4:
        ctx.sample({'value': short(V.vdigest(v), 300), 'text': text[:300]},
                   'dump')


def shard(ctx):
    from vlib import repotests
    repotests.run(ctx, 'C06', ['represent-pure'])
    rng = ctx.rng
    n_models = ctx.budget(8000, 110000)
    for i in range(n_models):
        spec = G.gen_model(rng, 'unamb')
        if rng.random() < 0.3:
            spec = G.relax(spec, rng, 1)
            if not dumpable_model(spec):
                continue
        try:
            m = H.model_of(spec)
        except Exception:
            ctx.count('model_build_failed')
            continue
        spec = H.clean_spec(spec)
        # a quarter of the models: objects referenced more than once (dumped
        # with anchors; a plain reader resolves the aliases)
        share = 0.5 if rng.random() < 0.25 else 0.0
        for t, v in gen_values(ctx, spec, m, 6, share=share):
            if share:
                ctx.count('values_from_sharing_generators')
            run_value(ctx, spec, v, t)
    # classes written as one scalar that their sweetener sets with
    # Node.set_value(): every kind of scalar value must come out as itself,
    # untagged, wherever the object stands
    pool = [None, True, False, 0, -7, 2 ** 70, 1.5, 1e22, 1e-7, -0.0,
            float('inf'), float('-inf'), float('nan'), '', 'x', 'null',
            'true', '1.5', '1e5', 'None', '~', 'a: b', ' lead', '2001-12-14']
    for i, val in enumerate(pool):
        if not ctx.mine(i):
            continue
        for kind in ('userstring', 'str', 'enum'):
            c = {'name': 'SV', 'kind': kind,
                 'sweeten': [['set_scalar', M.enc(val)]]}
            if kind == 'enum':
                c['members'] = ['aa', 'bb']
            hold = {'name': 'Hold', 'kind': 'plain', 'params': [
                {'name': 'h_id', 'type': 'int'},
                {'name': 'h_sv', 'type': ['cls', 'SV']},
                {'name': 'h_l', 'type': ['list', ['cls', 'SV']]},
                {'name': 'h_d', 'type': ['dict', 'str', ['cls', 'SV']]}]}
            spec = {'classes': [c, hold], 'doc_type': ['cls', 'Hold']}
            try:
                m = H.model_of(spec)
            except Exception as e:
                ctx.note('set_value family: %r' % (e,))
                continue
            spec = H.clean_spec(spec)

            def sv():
                return m.classes['SV']['aa'] if kind == 'enum' \
                    else m.classes['SV']('txt')
            ctx.count('set_value_family_values')
            run_value(ctx, spec, sv(), ['cls', 'SV'])
            run_value(ctx, spec, [sv(), sv()], ['list', ['cls', 'SV']])
            run_value(ctx, spec, m.classes['Hold'](
                h_id=1, h_sv=sv(), h_l=[sv()], h_d={'k': sv()}),
                ['cls', 'Hold'])
    # a class that is written as a sequence (its sweetener replaces the
    # mapping by a sequence node)
    if ctx.shard == 1:
        vec = {'name': 'Vec', 'kind': 'plain', 'sweeten': [['attrs_to_seq']],
               'params': [{'name': 'vx', 'type': 'int'},
                          {'name': 'vy', 'type': 'str'}]}
        holdv = {'name': 'HoldV', 'kind': 'plain', 'params': [
            {'name': 'hv_id', 'type': 'int'},
            {'name': 'hv_v', 'type': ['cls', 'Vec']},
            {'name': 'hv_l', 'type': ['list', ['cls', 'Vec']]}]}
        spec = {'classes': [vec, holdv], 'doc_type': ['cls', 'HoldV']}
        try:
            m = H.model_of(spec)
            spec = H.clean_spec(spec)
            Vec, HoldV = m.classes['Vec'], m.classes['HoldV']
            for i in range(20):
                ctx.count('sequence_sweetened_values')
                run_value(ctx, spec, Vec(vx=i, vy='a'), ['cls', 'Vec'])
                run_value(ctx, spec, [Vec(vx=i, vy='b'), Vec(vx=2, vy='')],
                          ['list', ['cls', 'Vec']])
                run_value(ctx, spec, HoldV(hv_id=i, hv_v=Vec(vx=1, vy='c'),
                                           hv_l=[Vec(vx=3, vy='d')]),
                          ['cls', 'HoldV'])
        except Exception as e:
            ctx.note('sequence-sweetened family: %r' % (e,))
    # plain containers incl. OrderedDict
    spec0 = {'classes': [], 'doc_type': 'any'}
    for _ in range(ctx.budget(10000, 130000)):
        v = plain.rand_plain(rng, depth=3, classes=('look', 'uni'),
                             finite=False, dates=True)
        if rng.random() < 0.3 and isinstance(v, dict):
            v = collections.OrderedDict(v)
        run_value(ctx, spec0, v)


def replay(ctx, case):
    m = H.model_of(case['spec'])
    run_value(ctx, case['spec'], V.decode_value(m, case['value']))
