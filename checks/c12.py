"""C12 - every source and sink kind gives the same result.

Monitor: differential observation at the public boundary.  The same document
is handed to one load function as str, pathlib.Path, open text stream
(real file and io.StringIO) and open binary stream (real file and io.BytesIO;
UTF-8, UTF-8 with BOM, UTF-16 with BOM) and the outcomes (structural value
digest, or exception class and cited positions) must agree.  The same object
is written by dump_function / dump_json_function to a file name, a Path, an
open text file and an io.StringIO and the bytes/text must equal what
dumps_function / dumps_json_function return for the same options.  Around
every call the set of open file descriptors is compared (nothing may stay
open, also after a failure).
"""
import io
import os
import pathlib
import re
import shutil

import yaml

import yatiml
from vlib import docs as D
from vlib import env
from vlib import harness as H
from vlib import modelgen as G
from vlib import plain
from vlib import values as V
from vlib import workload as W

PROPERTY = 'C12'
RULE = ('load cases = (class model, document text) x source kinds {str, Path, '
        'text file stream, io.StringIO, binary file stream, io.BytesIO utf-8, '
        'utf-8 with BOM, utf-16 with BOM}; documents: projections of '
        'generated values in six styles, 1-2 site mutants, empty documents, '
        'token soup, random unicode, truncations/splices (incl. unparseable '
        'YAML), strings with CR/LF/NEL/LS/PS. dump cases = (class model, '
        'value) x sink kinds {file name str, Path, text file stream, '
        'io.StringIO} for dump_function vs dumps_function and, for '
        'JSON-compatible values, dump_json_function vs dumps_json_function '
        'x indent in {None,0,1,2,3,4,8} x ensure_ascii in {True,False}. '
        'Non-trivial: all kinds were exercised and compared; distinct by '
        '(model, text or value, options).')
ASSUMPTIONS = [
    'files are written and read as UTF-8 (PYTHONUTF8=1); text that cannot be '
    'encoded (lone surrogates) is excluded from the file-based kinds',
    '"the same error": same exception class and, for sources without a byte '
    'order mark, the same cited line/column positions; message texts differ '
    'legitimately (source name, snippet only for in-memory sources)',
    'an object that cannot be dumped must fail with the same exception class '
    'for every sink kind; the partial file content is not judged',
]


def requirements(tier):
    q = tier == 'quick'
    return {'load_cases': 8000 if q else 110000,
            'load_source_calls': 70000 if q else 900000,
            'load_all_ok': 2000 if q else 27000,
            'load_all_fail_recognition': 4000 if q else 55000,
            'load_all_fail_yaml': 1500 if q else 20000,
            'dump_cases': 4500 if q else 60000,
            'dump_sink_calls': 18000 if q else 240000,
            'json_cases': 7000 if q else 90000,
            'json_sink_calls': 45000 if q else 600000,
            'json_indent_0': 2000 if q else 25000,
            'fd_checks': 120000 if q else 1600000,
            'file_name_documents': 20,
            'rewritten_file_loads': 3000 if q else 40000}


_dir = None
_n = 0
_n_calls = [0]


def workfile():
    global _dir, _n
    if _dir is None:
        _dir = os.path.join(env.workdir('c12'), 'p%d' % os.getpid())
        shutil.rmtree(_dir, ignore_errors=True)
        os.makedirs(_dir)
    _n = (_n + 1) % 8
    return os.path.join(_dir, 'f%d.txt' % _n)


def cleanup():
    global _dir
    if _dir is not None:
        shutil.rmtree(_dir, ignore_errors=True)
        _dir = None


def fds():
    return sorted(os.listdir('/proc/self/fd'))


POS = re.compile(r'line (\d+), column (\d+)')


def outcome(fn, *args, **kw):
    before = fds()
    try:
        r = ('ok', fn(*args, **kw))
    except RecursionError as e:
        r = ('err', e)
    except Exception as e:      # noqa
        r = ('err', e)
    after = fds()
    return r, before == after, (before, after)


def load_digest(kind, x):
    if kind == 'ok':
        return ['ok', V.vdigest(x)]
    return ['err', type(x).__module__ + '.' + type(x).__qualname__]


def positions(x):
    return sorted(set(POS.findall(str(x))))


def encodable(text):
    try:
        text.encode('utf-8')
        return True
    except UnicodeEncodeError:
        return False


def run_load(ctx, spec, text, origin='replay'):
    m = H.model_of(spec)
    case = {'kind': 'load', 'spec': spec, 'text': text}
    try:
        load = m.load_fn()
    except Exception:
        ctx.count('load_function_creation_failed')
        return
    results = {}

    def call(name, make):
        """make() -> (source, closer)"""
        src, closer = make()
        m.reset()
        r, fd_ok, fdinfo = outcome(load, src)
        if closer:
            closer()
        ctx.count('load_source_calls')
        ctx.count('fd_checks')
        if not fd_ok and closer is None:
            ctx.violation(
                'C12 load descriptor-left-open source=%s %s' % (
                    name, r[0]),
                'open descriptors before %s after %s (document %r)' % (
                    fdinfo[0], fdinfo[1], text[:100]), case)
        results[name] = r

    call('str', lambda: (text, None))
    if encodable(text):
        data = text.encode('utf-8')
        path = workfile()
        with open(path, 'wb') as f:
            f.write(data)
        call('Path', lambda: (pathlib.Path(path), None))
        tf = [None]

        def mk_text():
            tf[0] = open(path, 'r', encoding='utf-8')
            return tf[0], tf[0].close
        call('textfile', mk_text)

        def mk_bin():
            tf[0] = open(path, 'rb')
            return tf[0], tf[0].close
        call('binfile', mk_bin)
        call('BytesIO', lambda: (io.BytesIO(data), None))
        if not text.startswith('\ufeff'):
            call('BytesIO-utf8-bom', lambda: (
                io.BytesIO(b'\xef\xbb\xbf' + data), None))
            call('BytesIO-utf16', lambda: (
                io.BytesIO(text.encode('utf-16')), None))
            call('bytes', lambda: (data, None))
            # the same document in a file that starts with a byte order
            # mark (what an editor set to "UTF-8 with BOM" / "UTF-16" saves)
            for nm, enc in (('Path-utf8-bom', b'\xef\xbb\xbf' + data),
                            ('Path-utf16', text.encode('utf-16'))):
                p2 = workfile()
                with open(p2, 'wb') as f:
                    f.write(enc)
                call(nm, lambda: (pathlib.Path(p2), None))
        ctx.count('load_file_based')
    call('StringIO', lambda: (io.StringIO(text), None))

    base = results['str']
    db = load_digest(*base)
    for name, r in results.items():
        if name == 'str':
            continue
        d = load_digest(*r)
        if d != db:
            if 'bom' in name or 'utf16' in name:
                feat = 'bom-or-utf16'
            elif '\r' in text:
                feat = 'carriage-return-in-text'
            else:
                feat = 'plain'
            ctx.violation(
                'C12 load outcome-differs source=%s vs str (%s vs %s) %s' % (
                    name.split('-')[0], short_d(d), short_d(db), feat),
                'document %r (%s): str gives %s, %s gives %s' % (
                    text[:200], origin, describe(base), name, describe(r)),
                case)
        elif r[0] == 'err' and 'bom' not in name and 'utf16' not in name:
            if positions(r[1]) != positions(base[1]):
                ctx.violation(
                    'C12 load error-positions-differ source=%s vs str' % name,
                    'document %r: str cites %s, %s cites %s' % (
                        text[:200], positions(base[1]), name,
                        positions(r[1])), case)
    if base[0] == 'ok':
        ctx.count('load_all_ok')
    elif isinstance(base[1], yatiml.RecognitionError):
        ctx.count('load_all_fail_recognition')
    elif isinstance(base[1], yaml.YAMLError):
        ctx.count('load_all_fail_yaml')
    else:
        ctx.count('load_all_fail_other')
    ctx.count('load_cases')
    ctx.case(['load', spec, text], len(results) >= 5)
    if len(ctx.samples) < 2 and base[0] == 'ok' and len(results) >= 5:
        ctx.sample({'document': text[:200], 'sources': sorted(results),
                    'outcome': short_d(db)}, 'load')


def same_size_variants(rng, text, n):
    """Documents of exactly the size of `text`: ASCII digits and letters
    replaced by other digits / letters at one to three places."""
    import string
    spots = [i for i, ch in enumerate(text)
             if ch in string.ascii_letters or ch in string.digits]
    out = []
    for _ in range(n):
        if not spots:
            break
        chars = list(text)
        for i in rng.sample(spots, min(len(spots), rng.randint(1, 3))):
            pool = string.digits if chars[i] in string.digits else (
                string.ascii_lowercase if chars[i].islower()
                else string.ascii_uppercase)
            chars[i] = rng.choice([c for c in pool if c != chars[i]])
        out.append(''.join(chars))
    return out


def run_rewritten(ctx, spec, texts):
    """History on the file system: ONE load function reads ONE path again
    and again while the file's content is replaced by other documents of
    the same size, its modification time put back to the same instant each
    time (what copying with preserved times, or an edit within the clock's
    resolution, gives).  Every read must give what the str gives."""
    m = H.model_of(spec)
    case = {'kind': 'rewritten', 'spec': spec, 'texts': texts}
    try:
        load = m.load_fn()
    except Exception:
        ctx.count('load_function_creation_failed')
        return
    path = workfile()
    stamp = 1500000000 * 10 ** 9
    for k, text in enumerate(texts):
        if not encodable(text):
            continue
        with open(path, 'wb') as f:
            f.write(text.encode('utf-8'))
        os.utime(path, ns=(stamp, stamp))
        m.reset()
        base, _, _ = outcome(load, text)
        m.reset()
        r, fd_ok, fdinfo = outcome(load, pathlib.Path(path))
        ctx.count('rewritten_file_loads')
        if load_digest(*r) != load_digest(*base):
            ctx.violation(
                'C12 load outcome-differs source=Path vs str (%s vs %s) '
                'file-rewritten-in-place' % (short_d(load_digest(*r)),
                                             short_d(load_digest(*base))),
                'read %d of a path whose content was replaced (same size, '
                'same modification time): document %r: str gives %s, Path '
                'gives %s' % (k + 1, text[:200], describe(base),
                              describe(r)), case)
            break
    ctx.case(['rewritten', spec, texts], True)


def run_load_bytes(ctx, spec, data, origin='replay'):
    """A document given as bytes that are no valid UTF-8/16/32 text (or
    valid ones, as a control): there is no str kind; bytes, binary streams
    and a Path to a file with those bytes must agree."""
    m = H.model_of(spec)
    case = {'kind': 'load_bytes', 'spec': spec, 'hex': data.hex()}
    try:
        load = m.load_fn()
    except Exception:
        ctx.count('load_function_creation_failed')
        return
    path = workfile()
    with open(path, 'wb') as f:
        f.write(data)
    results = {}
    tf = [None]

    def mk_bin():
        tf[0] = open(path, 'rb')
        return tf[0]
    for name, make in (('bytes', lambda: data),
                       ('BytesIO', lambda: io.BytesIO(data)),
                       ('binfile', mk_bin),
                       ('Path', lambda: pathlib.Path(path))):
        src = make()
        m.reset()
        r, fd_ok, fdinfo = outcome(load, src)
        if tf[0] is not None:
            tf[0].close()
            tf[0] = None
        elif not fd_ok:
            ctx.violation(
                'C12 load descriptor-left-open source=%s %s' % (name, r[0]),
                'open descriptors before %s after %s (bytes %r)' % (
                    fdinfo[0], fdinfo[1], data[:60]), case)
        ctx.count('load_source_calls')
        results[name] = r
    base = results['bytes']
    db = load_digest(*base)
    for name, r in results.items():
        d = load_digest(*r)
        if d != db:
            ctx.violation(
                'C12 load outcome-differs source=%s vs bytes (%s vs %s) '
                'undecodable-or-odd-bytes' % (name, short_d(d), short_d(db)),
                'bytes %r (%s): bytes give %s, %s gives %s' % (
                    data[:80], origin, describe(base), name, describe(r)),
                case)
    ctx.count('load_bytes_cases')
    ctx.case(['load_bytes', spec, data.hex()], True)


LOCALE_SCRIPT = r'''
import io, json, os, pathlib, sys, locale
sys.path.insert(0, sys.argv[1])
import yaml, yatiml
from typing import Any, Dict
work = sys.argv[2]
out = {'encoding': locale.getpreferredencoding(False), 'cases': []}
docs = ['x: caf\u00e9\n', 'k: \u20ac 5\n', '- \u4e2d\u6587\n- plain\n',
        'x: "\\u00e9"\n', 'plain: ascii\n', '\u00e9: 1\n']
load = yatiml.load_function(Any)
dumps = yatiml.dumps_function()
dump = yatiml.dump_function()
dumpsj = yatiml.dumps_json_function()
dumpj = yatiml.dump_json_function()


def outcome(f, *a, **kw):
    try:
        return ['ok', f(*a, **kw)]
    except Exception as e:
        return ['err', type(e).__name__]


for i, d in enumerate(docs):
    p = pathlib.Path(work) / ('loc%d.yaml' % i)
    p.write_bytes(d.encode('utf-8'))
    rs = outcome(load, d)
    rp = outcome(load, p)
    with open(p, 'rb') as f:
        rb = outcome(load, f)
    out['cases'].append({'kind': 'load', 'doc': d, 'str': rs, 'Path': rp,
                         'binfile': rb})
    if rs[0] != 'ok':
        continue
    v = rs[1]
    for name, fs, fd, kw in (('yaml', dumps, dump, {}),
                             ('json', dumpsj, dumpj, {}),
                             ('json-noascii', dumpsj, dumpj,
                              {'ensure_ascii': False})):
        want = outcome(fs, v, **kw)
        q = pathlib.Path(work) / ('loc%d.%s.out' % (i, name))
        got = outcome(fd, v, q, **kw)
        data = q.read_bytes().hex() if q.exists() else None
        q2 = os.path.join(work, 'loc%d.%s.out2' % (i, name))
        got2 = outcome(fd, v, q2, **kw)
        data2 = open(q2, 'rb').read().hex() if os.path.exists(q2) else None
        back = outcome(load, q) if q.exists() else None
        out['cases'].append({'kind': 'dump', 'fmt': name, 'value': v,
                             'dumps': want, 'Path': [got[0], data, got[1]],
                             'strpath': [got2[0], data2, got2[1]],
                             'load_back': back})
print(json.dumps(out))
'''


def run_locale_config(ctx):
    """The same source/sink comparison in a process whose locale encoding
    is not UTF-8 (LC_ALL=C, UTF-8 mode off): what a Path is read and written
    as must not depend on it - YAML and JSON files are Unicode text in a
    UTF encoding whatever the user's locale is."""
    import subprocess
    import sys
    import json as _json
    work = os.path.dirname(workfile())
    envv = dict(os.environ)
    envv.update({'PYTHONUTF8': '0', 'PYTHONCOERCECLOCALE': '0',
                 'LC_ALL': 'C', 'LANG': 'C', 'PYTHONIOENCODING': 'utf-8'})
    try:
        r = subprocess.run([sys.executable, '-c', LOCALE_SCRIPT, env.REPO,
                            work], env=envv, capture_output=True, text=True,
                           timeout=300, encoding='utf-8')
        out = _json.loads(r.stdout)
    except Exception as e:      # noqa
        ctx.note('locale configuration run failed: %r' % (e,))
        return
    if out['encoding'].lower().replace('-', '') in ('utf8',):
        ctx.note('no non-UTF-8 locale available')
        return
    ctx.count('locale_config_runs')
    for c in out['cases']:
        ctx.count('locale_config_cases')
        case = {'kind': 'locale', 'case': c}
        if c['kind'] == 'load':
            for k in ('Path', 'binfile'):
                if c[k] != c['str']:
                    ctx.violation(
                        'C12 load outcome-differs source=%s vs str '
                        'non-utf8-locale (%s vs %s)' % (
                            k, c[k][0] if c[k][0] == 'ok' else c[k][1],
                            c['str'][0] if c['str'][0] == 'ok'
                            else c['str'][1]),
                        'locale encoding %s, document %r: str gives %r, %s '
                        'gives %r' % (out['encoding'], c['doc'], c['str'],
                                      k, c[k]), case)
        else:
            want = c['dumps']
            for k in ('Path', 'strpath'):
                st, data, res = c[k]
                if want[0] != 'ok':
                    continue
                if st != 'ok':
                    ctx.violation(
                        'C12 dump sink=%s raised %s non-utf8-locale' % (
                            k, res),
                        'locale encoding %s, %s dump of %r: dumps gives %r '
                        'but writing to a %s raised %s' % (
                            out['encoding'], c['fmt'], c['value'], want[1],
                            k, res), case)
                elif bytes.fromhex(data) != want[1].encode('utf-8'):
                    ctx.violation(
                        'C12 dump sink=%s bytes-differ-from-utf8-of-dumps '
                        'non-utf8-locale' % k,
                        'locale encoding %s, %s dump of %r: dumps gives %r, '
                        'file holds %r' % (out['encoding'], c['fmt'],
                                           c['value'], want[1],
                                           bytes.fromhex(data)), case)
            if c['load_back'] and c['load_back'] != ['ok', c['value']]:
                ctx.violation(
                    'C12 load-of-dumped-file differs non-utf8-locale',
                    'locale encoding %s: %r dumped to a Path (%s) and loaded '
                    'from it gives %r' % (out['encoding'], c['value'],
                                          c['fmt'], c['load_back']), case)
        ctx.case(['locale', c], True)


def short_d(d):
    if d[0] == 'ok':
        return 'value'
    return d[1].split('.')[-1]


def describe(r):
    if r[0] == 'ok':
        s = repr(V.vdigest(r[1]))
        return 'value ' + (s if len(s) < 200 else s[:200] + '...')
    return '%s: %s' % (type(r[1]).__name__, str(r[1])[-150:].replace('\n', ' | '))


# ---------------------------------------------------------------------------
# sinks

def sink_calls(ctx, case, label, dump, obj, expect, kw, counter):
    """dump(obj, sink, **kw) for each sink kind; compare with `expect`
    (('ok', text) | ('err', exc))."""

    def judge(name, r, got_text):
        ctx.count(counter)
        if expect[0] == 'ok':
            if r[0] != 'ok':
                ctx.violation(
                    'C12 %s sink-raised sink=%s %s' % (
                        label, name, type(r[1]).__name__),
                    '%s: dumps returns text, dump to %s raised %s: %s '
                    '(options %s)' % (label, name, type(r[1]).__name__,
                                      str(r[1])[:200], kw), case)
            elif got_text != expect[1]:
                ctx.violation(
                    'C12 %s text-differs sink=%s%s' % (
                        label, name, opt_feature(kw)),
                    '%s: dumps gives %r, %s received %r (options %s)' % (
                        label, short(expect[1]), name, short(got_text), kw),
                    case)
        else:
            if r[0] == 'ok':
                ctx.violation(
                    'C12 %s sink-accepted-what-dumps-rejects sink=%s' % (
                        label, name),
                    '%s: dumps raised %s, dump to %s wrote %r' % (
                        label, type(expect[1]).__name__, name,
                        short(got_text)), case)
            elif type(r[1]) is not type(expect[1]):
                ctx.violation(
                    'C12 %s error-class-differs sink=%s' % (label, name),
                    '%s: dumps raised %s, dump to %s raised %s' % (
                        label, type(expect[1]).__name__, name,
                        type(r[1]).__name__), case)

    def fdcheck(name, fd_ok, fdinfo, r):
        ctx.count('fd_checks')
        if not fd_ok:
            ctx.violation(
                'C12 %s descriptor-left-open sink=%s %s' % (
                    label, name, r[0]),
                'open descriptors before %s after %s' % fdinfo, case)

    def readback(path):
        try:
            with open(path, 'rb') as f:
                return f.read().decode('utf-8', 'surrogateescape')
        except OSError:
            return None

    # file name; the file may exist already and be longer than what is
    # written now (rewriting a file): nothing of the old content may remain
    junk = '# old content\n' + 'x: 1\n' * (
        (len(expect[1]) // 4 + 50) if expect[0] == 'ok' else 50)
    path = workfile()
    _n_calls[0] += 1
    if _n_calls[0] % 2:
        with open(path, 'w', encoding='utf-8') as f:
            f.write(junk)
    elif os.path.exists(path):
        os.unlink(path)
    r, fd_ok, fdinfo = outcome(dump, obj, path, **kw)
    fdcheck('filename', fd_ok, fdinfo, r)
    judge('filename' + ('-existing' if _n_calls[0] % 2 else ''), r,
          readback(path))
    # Path
    path = workfile()
    if _n_calls[0] % 3 == 0:
        with open(path, 'w', encoding='utf-8') as f:
            f.write(junk)
    elif os.path.exists(path):
        os.unlink(path)
    r, fd_ok, fdinfo = outcome(dump, obj, pathlib.Path(path), **kw)
    fdcheck('Path', fd_ok, fdinfo, r)
    judge('Path' + ('-existing' if _n_calls[0] % 3 == 0 else ''), r,
          readback(path))
    # caller-opened text streams with other spellings / kinds of encoding
    for enc in ('utf8', 'UTF-8', 'utf-16', 'utf-8-sig'):
        if (_n_calls[0] + len(enc)) % 2:
            continue
        path = workfile()
        try:
            f = open(path, 'w', encoding=enc, newline='')
        except LookupError:
            continue
        try:
            r, fd_ok, fdinfo = outcome(dump, obj, f, **kw)
        finally:
            f.close()
        try:
            with open(path, 'rb') as fb:
                got = fb.read().decode(enc, 'surrogateescape')
        except (OSError, UnicodeError):
            got = None
        if enc == 'utf-8-sig' and got and got.startswith('\ufeff'):
            got = got[1:]
        judge('textfile-%s' % enc, r, got)
    # open text file
    path = workfile()
    f = open(path, 'w', encoding='utf-8', newline='')
    try:
        r, fd_ok, fdinfo = outcome(dump, obj, f, **kw)
    finally:
        f.close()
    judge('textfile', r, readback(path))
    # StringIO
    s = io.StringIO()
    r, fd_ok, fdinfo = outcome(dump, obj, s, **kw)
    fdcheck('StringIO', fd_ok, fdinfo, r)
    judge('StringIO', r, s.getvalue())
    # open text streams that are no io.IOBase: tempfile's wrapper, a codecs
    # writer, any object with write()
    if _n_calls[0] % 2 == 0:
        import codecs
        import tempfile

        class Duck:
            def __init__(self):
                self.parts = []

            def write(self, text):
                self.parts.append(text)
        d = Duck()
        r, fd_ok, fdinfo = outcome(dump, obj, d, **kw)
        judge('duck-typed-writer', r, ''.join(d.parts))
        path = workfile()
        f = codecs.open(path, 'w', 'utf-8')
        try:
            r, fd_ok, fdinfo = outcome(dump, obj, f, **kw)
        finally:
            f.close()
        judge('codecs-writer', r, readback(path))
        with tempfile.NamedTemporaryFile(
                'w+', encoding='utf-8', newline='',
                dir=os.path.dirname(path)) as f:
            r, fd_ok, fdinfo = outcome(dump, obj, f, **kw)
            f.flush()
            judge('NamedTemporaryFile', r, readback(f.name))
    # a text stream that already holds something: a header line, or an
    # earlier dump - what is appended must be exactly the dumps text
    head = '# written before\n'
    s = io.StringIO()
    s.write(head)
    r, fd_ok, fdinfo = outcome(dump, obj, s, **kw)
    got = s.getvalue()
    judge('StringIO-prefilled', r, got[len(head):] if got.startswith(head)
          else got)
    if r[0] == 'ok':
        n0 = len(got)
        r2, _, _ = outcome(dump, obj, s, **kw)
        judge('StringIO-second-dump', r2, s.getvalue()[n0:])
    path = workfile()
    with open(path, 'w', encoding='utf-8', newline='') as f:
        f.write(head)
    f = open(path, 'a', encoding='utf-8', newline='')
    try:
        r, fd_ok, fdinfo = outcome(dump, obj, f, **kw)
    finally:
        f.close()
    got = readback(path)
    judge('textfile-append', r, got[len(head):] if got and got.startswith(
        head) else got)


def opt_feature(kw):
    if not kw:
        return ''
    return ' indent=%s ensure_ascii=%s' % (
        'none' if kw.get('indent') is None else
        ('zero' if kw.get('indent') == 0 else 'positive'),
        kw.get('ensure_ascii', True))


def short(x, n=160):
    s = x if isinstance(x, str) else repr(x)
    return s if len(s) <= n else s[:n] + '...'


INDENTS = [None, 0, 1, 2, 3, 4, 8]


def json_compatible(data):
    """tree-shaped plain data with finite floats and string keys"""
    import math
    if isinstance(data, float):
        return math.isfinite(data)
    if isinstance(data, dict):
        return all(isinstance(k, str) and json_compatible(v)
                   for k, v in data.items())
    if isinstance(data, list):
        return all(json_compatible(v) for v in data)
    return True


def text_ok(data):
    for s in plain.walk_strings(data):
        if plain.has_surrogate(s):
            return False
    return True


def run_dump(ctx, spec, v, json_opts=None, do_yaml=True):
    m = H.model_of(spec)
    case = {'kind': 'dump', 'spec': spec, 'value': V.encode_value(v),
            'json_opts': json_opts, 'do_yaml': do_yaml}
    try:
        data = D.proj(m, v)
    except (ValueError, TypeError, RecursionError):
        ctx.count('projection_failed')
        return
    if not text_ok(data):
        ctx.count('skipped_surrogates')
        return
    if do_yaml:
        try:
            dumps, dump = m.dumps_fn(), m.dump_fn()
        except Exception:
            ctx.count('dump_function_creation_failed')
            return
        m.reset()
        expect, _, _ = outcome(dumps, v)
        sink_calls(ctx, case, 'yaml', dump, v, expect, {}, 'dump_sink_calls')
        ctx.count('dump_cases')
        ctx.count('dump_ok' if expect[0] == 'ok' else 'dump_fail')
        ctx.case(['dump', case['value'], spec], True)
    if json_opts is not None:
        try:
            dumpsj, dumpj = m.dumps_json_fn(), m.dump_json_fn()
        except Exception:
            ctx.count('dump_function_creation_failed')
            return
        for indent, ea in json_opts:
            kw = {'indent': indent, 'ensure_ascii': ea}
            m.reset()
            expect, _, _ = outcome(dumpsj, v, **kw)
            sink_calls(ctx, case, 'json', dumpj, v, expect, kw,
                       'json_sink_calls')
            ctx.count('json_cases')
            ctx.count('json_ok' if expect[0] == 'ok' else 'json_fail')
            if indent == 0:
                ctx.count('json_indent_0')
            ctx.case(['json', case['value'], spec, indent, ea], True)
        # default options: positional/omitted arguments
        m.reset()
        expect, _, _ = outcome(dumpsj, v)
        sink_calls(ctx, case, 'json', dumpj, v, expect, {}, 'json_sink_calls')
    if len(ctx.samples) < 4 and do_yaml and expect[0] == 'ok':
        ctx.sample({'value': short(repr(V.vdigest(v)), 200),
                    'sinks': ['filename', 'Path', 'textfile', 'StringIO'],
                    'json_options': json_opts}, 'dump')


NEWLINE_DOCS = [
    'a: "x\ry"\n', 'a: |\n  l1\r\n  l2\n', 'k: v\r\nk2: v2\r\n', 'a: b\rc: d\r',
    '- "a\\r\\nb"\n- c\n', "- 'a\r\n\r\n  b'\n", 'a: >\r\n  folded\r\n  text\r\n',
    'a: x\u0085b: y\n', 'a: "x\u2028y"\n', 'a: "x\u2029y"\n', '\ufeffa: 1\n',
    'a: 1\n\ufeff', '- \u00e9\n- "\\u00e9"\n', '# c\r\n---\r\na: 1\r\n...\r\n',
    'a: "\t"\n', 'a:\t1\n', '\tb: 1\n', 'a: "x\\\r\n  y"\n',
]


def shard(ctx):
    rng = ctx.rng
    try:
        n_models = ctx.budget(2200, 30000)
        for i in range(n_models):
            profile = 'unamb' if rng.random() < 0.6 else 'free'
            st = W.Stream(ctx, profile, str_classes=('look', 'uni'),
                          mutants=2, soup=2)
            spec, m = st.new_model()
            if spec is None:
                continue
            for text, meta in st.cases(spec, m, n_values=1):
                if len(text) > 4096:
                    continue
                run_load(ctx, spec, text, meta.get('origin'))
            if rng.random() < 0.3:
                run_load(ctx, spec, rng.choice(NEWLINE_DOCS), 'newline')
            if rng.random() < 0.5:
                # the model's first (valid) document and same-size
                # variants of it, through one path, then the first again
                for text, meta in st.cases(spec, m, n_values=1):
                    if len(text) <= 4096:
                        vs = same_size_variants(rng, text, 3)
                        run_rewritten(ctx, spec, [text] + vs + [text])
                    break
            # dumps
            import checks.c06 as c06
            for t, v in c06.gen_values(ctx, spec, m, 3):
                data = None
                try:
                    data = D.proj(m, v)
                except (ValueError, TypeError, RecursionError):
                    pass
                jo = None
                if data is not None and json_compatible(data):
                    jo = [(rng.choice(INDENTS), rng.random() < 0.5)]
                    if rng.random() < 0.3:
                        jo.append((0, rng.random() < 0.5))
                run_dump(ctx, spec, v, jo)
        spec0 = {'classes': [], 'doc_type': 'any'}
        # a document whose whole text is the name of an existing file is
        # still a document (a plain scalar), whatever the source kind
        names = [workfile(), os.path.join(env.VERIF, 'MANIFEST.json'),
                 'MANIFEST.json', 'vcheck.py', '/etc/hostname', '.',
                 os.path.join(env.REPO, 'setup.py')]
        with open(names[0], 'w') as f:
            f.write('inside: the file\n')
        for i, nm in enumerate(names):
            if ctx.mine(i):
                for dt in ('any', 'str', 'path', ['union', 'str', 'int']):
                    ctx.count('file_name_documents')
                    run_load(ctx, {'classes': [], 'doc_type': dt}, nm,
                             'file-name')
        for i, s in enumerate(NEWLINE_DOCS):
            if ctx.mine(i):
                run_load(ctx, spec0, s, 'newline')
                run_load(ctx, {'classes': [],
                               'doc_type': ['dict', 'str', 'str']}, s,
                         'newline')
        if ctx.shard == 0:
            run_locale_config(ctx)
        # documents longer than PyYAML's read buffers whose only defect (a
        # character YAML does not allow) sits far behind their start
        for i, (pad, bad) in enumerate([(9000, '\x01'), (20000, '\x07'),
                                        (9000, '\ufffe'), (5000, '\x01'),
                                        (8190, '\x0b'), (40000, '\x1f')]):
            if ctx.mine(i):
                text = 'a: 1\n' + '# padding line\n' * (pad // 15) + \
                    'x: "%s"\nz: 2\n' % bad
                for dt in ('any', ['dict', 'str', 'any']):
                    ctx.count('long_documents')
                    run_load(ctx, {'classes': [], 'doc_type': dt}, text,
                             'long-late-bad-character')
        # documents given as bytes that are no (or unusual) Unicode text
        odd = [b'x: \xff\xfe', b'x: caf\xe9\n', b'\xff', b'\xfe\xff\x00',
               b'k: v\n\x80', b'\xc3', b'a: "\xed\xa0\x80"\n',
               'x: caf\u00e9\n'.encode('utf-16-le'),
               'x: caf\u00e9\n'.encode('utf-16-be'),
               b'\xff\xfe' + 'x: 1\n'.encode('utf-16-be'),
               'x: caf\u00e9\n'.encode('utf-32'), b'x: 1\n\x00',
               b'', b'\xef\xbb\xbf', b'x: ok\n', b'\xef\xbb\xbfx: ok\n',
               'x: \u20ac\n'.encode('utf-16'), b'x: "\\xff"\n']
        for i, data in enumerate(odd):
            if ctx.mine(i):
                for dt in ('any', ['dict', 'str', 'any'], 'str'):
                    run_load_bytes(ctx, {'classes': [], 'doc_type': dt},
                                   data, 'odd-bytes')
        for _ in range(ctx.budget(300, 4000)):
            base = rng.choice([b'x: caf\xc3\xa9\n', b'- a\n- b\n',
                               b'k: "v"\n', 'x: \u00e9\n'.encode('utf-16')])
            ba = bytearray(base)
            for _ in range(rng.randint(1, 2)):
                ba[rng.randrange(len(ba))] = rng.randrange(128, 256)
            run_load_bytes(ctx, spec0, bytes(ba), 'corrupted-bytes')
        for _ in range(ctx.budget(600, 8000)):
            v = plain.rand_plain(rng, depth=3, classes=('look', 'uni', 'json'),
                                 finite=True, dates=True)
            jo = [(ind, ea) for ind in rng.sample(INDENTS, 2)
                  for ea in (True, False)] if json_compatible(v) else None
            run_dump(ctx, spec0, v, jo)
        # every indent x ensure_ascii on a few fixed shapes
        fixed = [{'a': [1, {'b': '\u00e9\U0001F600'}], 'c': {}}, [], {}, 'x',
                 [[], [[]], {'k': []}], {'k': None, 'l': True, 'm': 1.5}]
        k = 0
        for v in fixed:
            for ind in INDENTS:
                for ea in (True, False):
                    k += 1
                    if ctx.mine(k):
                        run_dump(ctx, spec0, v, [(ind, ea)], do_yaml=False)
    finally:
        cleanup()


def replay(ctx, case):
    try:
        if case['kind'] == 'load':
            run_load(ctx, case['spec'], case['text'])
        elif case['kind'] == 'rewritten':
            run_rewritten(ctx, case['spec'], case['texts'])
        elif case['kind'] == 'locale':
            run_locale_config(ctx)
        elif case['kind'] == 'load_bytes':
            run_load_bytes(ctx, case['spec'], bytes.fromhex(case['hex']))
        else:
            m = H.model_of(case['spec'])
            jo = case.get('json_opts')
            run_dump(ctx, case['spec'], V.decode_value(m, case['value']),
                     [tuple(x) for x in jo] if jo else None,
                     case.get('do_yaml', True))
    finally:
        cleanup()
