"""C03 - polymorphic positions resolve to the unique most-derived match,
never a guess.

Monitors
  * reference comparison: every case is judged by the candidate-set rules of
    the reference semantics (vlib/refsem.py): accept/reject and the exact
    class of every object of the loaded value must agree (abstract and
    unregistered classes can therefore never appear, ambiguity must be
    rejected unless a tag names a candidate, conflicting/unknown tags must be
    rejected);
  * order invariance (oracle-free): the same document is loaded with the
    members of every Union permuted and with the classes registered in
    several orders; all outcome digests must be identical.
"""
import copy
import itertools

import yaml

import yatiml
from vlib import docs as D
from vlib import harness as H
from vlib import models as M
from vlib import nodes as N
from vlib import refsem as R
from vlib import scalars as S
from vlib import values as V
from checks import c02

PROPERTY = 'C03'
RULE = ('cases = (hierarchy model, document, orderings). Models: generated '
        'class hierarchies of depth <= 4 and width <= 3 (children with and '
        'without own required attributes, optional attributes, abstract '
        'classes, unregistered leaves, classes with two bases, custom '
        'discriminating recognisers) plus enums, string-likes; document '
        'types: the root class, Optional, List, Dict and Unions over classes, '
        'scalars, enums, string-likes, Path and lists (incl. overlapping '
        'members). Documents: for every concrete class a valid mapping '
        'untagged and tagged with its own, its parent\'s, a sibling\'s, an '
        'unknown and an unregistered class name, with dropped/added keys; '
        'scalars for the scalar members. Each case is loaded under up to 6 '
        'registration orders x up to 6 Union member orders. Non-trivial: the '
        'reference judged the case or at least two orderings were compared; '
        'distinct by (model, document).')
ASSUMPTIONS = [
    'an explicit tag naming a less derived matching class selects it (pinned '
    'by tests/test_classes.py::test_user_class_override2)',
    'a registered class reachable only through an unregistered intermediate '
    'class and class tags on enum/string-like scalars are not judged by the '
    'reference (order invariance is still demanded)',
    'outcomes are compared as value digests (exact class of every object) or '
    'as the fact of a RecognitionError/YAMLError',
]


def requirements(tier):
    q = tier == 'quick'
    return {'models': 2000 if q else 25000,
            'documents': 22000 if q else 280000,
            'loads': 100000 if q else 1300000,
            'order_groups_compared': 22000 if q else 280000,
            'groups_with_2plus_orders': 22000 if q else 280000,
            'ref_judged': 20000 if q else 260000,
            'ref_ambiguous_rejected': 800 if q else 10000,
            'ref_tag_disambiguated': 500 if q else 6000,
            'ref_tag_conflict': 4000 if q else 50000,
            'accepted_polymorphic': 2500 if q else 32000,
            'union_permutations': 30000 if q else 400000}


SCALAR_T = ['int', 'str', 'float', 'bool']


def gen_hierarchy(rng):
    classes = []
    counter = [0]

    def new(prefix='H'):
        counter[0] += 1
        return '%s%d' % (prefix, counter[0])
    enums, strs = [], []
    if rng.random() < 0.5:
        e = new('E')
        classes.append({'name': e, 'kind': 'enum',
                        'members': rng.choice([['red', 'green'],
                                               ['true', 'false', 'x'],
                                               ['a', 'b', 'c']])})
        enums.append(e)
    if rng.random() < 0.4:
        s = new('S')
        classes.append({'name': s, 'kind': rng.choice(
            ['str', 'userstring', 'stringlike'])})
        strs.append(s)
    roots = []
    hier = []

    def scalar_type():
        r = rng.random()
        if r < 0.75 or not (enums or strs):
            return rng.choice(SCALAR_T)
        return ['cls', rng.choice(enums + strs)]

    def make(parent, depth):
        name = new('H')
        c = {'name': name, 'kind': 'plain',
             'params': copy.deepcopy(parent['params']) if parent else []}
        if parent:
            c['bases'] = [parent['name']]
        r = rng.random()
        own = []
        if parent is None or r < 0.6:
            own.append({'name': '%s_x' % name.lower(), 'type': scalar_type()})
        if rng.random() < 0.3:
            own.append({'name': '%s_o' % name.lower(), 'type': scalar_type(),
                        'default': None})
            own[-1]['type'] = ['opt', own[-1]['type']]
        if parent is not None and rng.random() < 0.2:
            # recursive hierarchy: holds objects of the root of its own tree
            rootname = hier[0]['name'] if not roots else None
            top = parent
            while top.get('bases'):
                top = [x for x in classes if x['name'] == top['bases'][0]][0]
            own.append({'name': '%s_kids' % name.lower(),
                        'type': rng.choice([['list', ['cls', top['name']]],
                                            ['opt', ['cls', top['name']]]]),
                        'default': None})
            if own[-1]['type'][0] == 'list':
                del own[-1]['default']
        req = [p for p in c['params'] if 'default' not in p] + \
            [p for p in own if 'default' not in p]
        opt = [p for p in c['params'] if 'default' in p] + \
            [p for p in own if 'default' in p]
        c['params'] = req + opt
        classes.append(c)
        hier.append(c)
        nkids = 0
        if depth < 4:
            nkids = rng.choice([0, 1, 2, 2, 3] if depth < 3 else [0, 0, 1, 2])
        kids = [make(c, depth + 1) for _ in range(nkids)]
        if rng.random() < 0.15:
            c['extra'] = True       # with defaults: Optional[...] = None
        if kids and rng.random() < 0.3:
            c['abc'] = True
        elif kids and parent is None and rng.random() < 0.3:
            c['abstractmethod'] = True      # implemented by descendants
        elif not kids and rng.random() < 0.08:
            c['registered'] = False
        if rng.random() < 0.12 and not c.get('abc'):
            c['recognize'] = ['all'] + [['attr', p['name'], None]
                                        for p in c['params']
                                        if 'default' not in p] + \
                [['attr_value', 'kind', name]]
            c['savorize'] = [['remove_attr', 'kind']]
            if rng.random() < 0.4:
                # a number as discriminator (compared by value, whatever
                # its spelling): 8 and up, so that the octal, hexadecimal
                # and decimal spellings all differ
                c['disc_int'] = 8 + len(classes)
                c['recognize'][-1] = ['attr_value', 'kind', c['disc_int']]
        return c
    for _ in range(rng.choice([1, 1, 2])):
        roots.append(make(None, 1))
    # below a root with an abstract method, a class that has subclasses may
    # leave it unimplemented: abstract without naming abc.ABC itself
    for c in classes:
        bs = c.get('bases', [])
        if len(bs) == 1 and any(
                d['name'] == bs[0] and (d.get('abstractmethod')
                                        or d.get('keep_abstract'))
                for d in classes) and any(
                c['name'] in d.get('bases', []) for d in classes) \
                and not c.get('abc') and not c.get('recognize') \
                and rng.random() < 0.6:
            c['keep_abstract'] = True
    # a class with two bases from the hierarchies
    if len(hier) >= 3 and rng.random() < 0.3:
        a, b = rng.sample(hier, 2)
        anc = lambda c: set(_anc(classes, c))
        if a['name'] not in anc(b) and b['name'] not in anc(a) \
                and not a.get('registered') is False \
                and not b.get('registered') is False:
            name = new('M')
            names = []
            params = []
            for p in a['params'] + b['params']:
                if p['name'] not in names:
                    names.append(p['name'])
                    params.append(copy.deepcopy(p))
            params = [p for p in params if 'default' not in p] + \
                [p for p in params if 'default' in p]
            classes.append({'name': name, 'kind': 'plain', 'params': params,
                            'bases': [a['name'], b['name']]})
            hier.append(classes[-1])
    root = rng.choice(roots)
    rt = ['cls', root['name']]
    r = rng.random()
    names = [c['name'] for c in hier if c.get('registered', True)]
    if r < 0.3:
        dt = rt
    elif r < 0.4:
        dt = ['opt', rt]
    elif r < 0.5:
        dt = ['list', rt]
    elif r < 0.58:
        dt = ['dict', 'str', rt]
    else:
        members = []
        pool = [['cls', n] for n in rng.sample(names, min(len(names), 3))] + \
            ['int', 'str', 'bool', 'float', 'none', 'path',
             ['list', 'int'], ['list', rt], ['dict', 'str', 'int']] + \
            [['cls', e] for e in enums + strs]
        for t in rng.sample(pool, rng.randint(2, 4)):
            if t not in members:
                members.append(t)
        if 'bool' in members and rng.random() < 0.4:
            if rng.random() < 0.35:
                # bool_union_fix alone: the single member for a boolean
                members[members.index('bool')] = 'buf'
            else:
                members.append('buf')
        dt = ['union'] + members
        if rng.random() < 0.3:
            dt = ['list', dt]
    return {'classes': classes, 'doc_type': dt, 'profile': 'hier'}


def _anc(classes, c):
    by = {x['name']: x for x in classes}
    out = []
    todo = list(c.get('bases', []))
    while todo:
        b = todo.pop()
        if b in out or b not in by:
            continue
        out.append(b)
        todo.extend(by[b].get('bases', []))
    return out


SCALAR_NODES = {
    'int': [N.s_int(3)], 'str': [N.s_str('w'), N.s_str('red')],
    'float': [N.s_float('2.5')], 'bool': [N.s_bool('true')],
}


def concrete_below(m, name):
    out = []
    for n in [name] + m.descendants(name):
        c = m.cspecs[n]
        if c.get('registered', True) and not m.is_abstract(n) and \
                n not in out:
            out.append(n)
    return out


def value_node(m, t, rng, depth=0):
    if isinstance(t, str):
        return rng.choice(SCALAR_NODES[t])
    if t[0] == 'opt':
        if rng.random() < 0.3 or (depth >= 2 and isinstance(
                t[1], list) and t[1][0] == 'cls' and m.cspecs[t[1][1]].get(
                    'kind', 'plain') == 'plain'):
            return N.s_null('null')
        return value_node(m, t[1], rng, depth)
    if t[0] == 'list':
        if depth >= 2:
            return ['seq', [], S.TAG_SEQ]
        return ['seq', [value_node(m, t[1], rng, depth)
                        for _ in range(rng.randint(0, 2))], S.TAG_SEQ]
    if t[0] == 'cls':
        c = m.cspecs[t[1]]
        if c.get('kind') == 'enum':
            return N.s_str(rng.choice(c['members'])) if rng.random() < 0.8 \
                else N.s_bool('true')
        if c.get('kind', 'plain') == 'plain':
            cands = concrete_below(m, t[1])
            if not cands:
                return N.s_null('null')
            return class_doc(m, rng.choice(cands), rng, rng.random() < 0.3,
                             depth + 1)
        return N.s_str('sv')
    raise ValueError(t)


def class_doc(m, cname, rng, with_optional, depth=0):
    c = m.cspecs[cname]
    pairs = []
    for p in c['params']:
        if 'default' in p and not with_optional:
            continue
        pairs.append([N.s_str(p['name']),
                      value_node(m, p['type'], rng, depth)])
    if c.get('recognize'):
        pairs.append([N.s_str('kind'), N.s_int(c['disc_int'])
                      if c.get('disc_int') is not None else N.s_str(cname)])
    return ['map', pairs, S.TAG_MAP]


def documents(m, spec, rng):
    """Node specs exercising the polymorphic positions of the model."""
    hier = [c['name'] for c in spec['classes']
            if c.get('kind', 'plain') == 'plain']
    out = []
    for cname in hier:
        base = class_doc(m, cname, rng, rng.random() < 0.5)
        out.append(base)
        c = m.cspecs[cname]
        tags = ['!' + cname, '!Unknown']
        if c.get('bases'):
            tags.append('!' + rng.choice(c['bases']))
        sib = [x for x in hier if x != cname]
        if sib:
            tags.append('!' + rng.choice(sib))
            tags.append('!' + rng.choice(sib))
        for t in tags:
            out.append(base[:2] + [t])
        if base[1]:
            d = copy.deepcopy(base)
            del d[1][rng.randrange(len(d[1]))]
            out.append(d)
            out.append(d[:2] + ['!' + cname])
        a = copy.deepcopy(base)
        a[1].append([N.s_str('zz_extra'), N.s_int(1)])
        out.append(a)
    for s in (N.s_int(3), N.s_str('w'), N.s_str('red'), N.s_bool('true'),
              N.s_null('null'), N.s_float('2.5'), N.s_str('a/b'),
              ['seq', [N.s_int(1)], S.TAG_SEQ], ['seq', [], S.TAG_SEQ],
              ['map', [], S.TAG_MAP],
              ['map', [[N.s_str('k'), N.s_int(1)]], S.TAG_MAP]):
        out.append(s)
    return out


def wrap(spec, node, rng):
    dt = spec['doc_type']
    if dt[0] == 'list':
        return ['seq', [node] if rng.random() < 0.5 else [node, node],
                S.TAG_SEQ]
    if dt[0] == 'dict':
        return ['map', [[N.s_str('k1'), node]], S.TAG_MAP]
    return node


def permute_unions(t, perm_seed):
    import random
    if isinstance(t, str):
        return t
    if t[0] == 'cls':
        return t
    inner = [permute_unions(x, perm_seed) for x in t[1:]]
    if t[0] == 'union':
        r = random.Random(perm_seed * 7919 + len(inner))
        r.shuffle(inner)
    return [t[0]] + inner


def count_union_members(t):
    if isinstance(t, str) or t[0] == 'cls':
        return 0
    n = max([count_union_members(x) for x in t[1:]] + [0])
    if t[0] == 'union':
        n = max(n, len(t) - 1)
    return n


def variant(spec, order_seed, union_seed):
    import random
    s2 = copy.deepcopy(spec)
    if union_seed:
        s2['doc_type'] = permute_unions(s2['doc_type'], union_seed)
        for c in s2['classes']:
            for p in c.get('params', []):
                if p['type'] != 'untyped':
                    p['type'] = permute_unions(p['type'], union_seed)
    names = [c['name'] for c in s2['classes'] if c.get('registered', True)]
    if order_seed:
        random.Random(order_seed).shuffle(names)
    s2['order'] = names
    return s2


def judge(ctx, spec, nspec, style, seeds):
    """seeds: list of (order_seed, union_seed); (0, 0) first = as written."""
    try:
        text = D.render(nspec, style)
    except (ValueError, RecursionError):
        return
    ctx.count('documents')
    case = {'spec': spec, 'nspec': nspec, 'style': style, 'seeds': seeds}
    digests = []
    base_val = None
    for k, (os_, us) in enumerate(seeds):
        s2 = variant(spec, os_, us)
        m2 = H.model_of(s2)
        H.prior_partial_use(ctx, m2, text, 3 if (os_ + us) % 2 else 2)
        try:
            load = m2.load_fn()
        except Exception:
            ctx.count('load_function_creation_failed')
            return
        kind, x = H.run_load(load, text)
        ctx.count('loads')
        if us:
            ctx.count('union_permutations')
        if kind == 'err' and not isinstance(x, H.ALLOWED):
            ctx.violation(
                'C03 other-exception %s %s' % (type(x).__name__,
                                               H.exc_site(x)),
                'document %r raised %s: %s' % (text[:200], type(x).__name__,
                                              str(x)[:200]), case)
            return
        d = ['ok', V.vdigest(x)] if kind == 'ok' else ['fail']
        digests.append((os_, us, d, x if kind == 'err' else None))
        if k == 0:
            base_val = (kind, x)
    ctx.count('order_groups_compared')
    if len(digests) >= 2:
        ctx.count('groups_with_2plus_orders')
    d0 = digests[0][2]
    for os_, us, d, exc in digests[1:]:
        if d != d0:
            which = ('union-member-order' if us and not os_ else
                     'registration-order' if os_ and not us else
                     'union-and-registration-order')
            ctx.violation(
                'C03 order-dependence %s (%s vs %s)' % (
                    which, d0[0], d[0]),
                'document %r (type %r): as written %s, with %s changed '
                '(order seed %s, union seed %s) %s' % (
                    text[:200], spec['doc_type'], c02.short(d0), which, os_,
                    us, c02.short(d)), case)
            break
    # reference
    m = H.model_of(variant(spec, 0, 0))
    import collections
    rules = collections.Counter()
    m.reset()
    ref = R.ref_load(m, text, None, rules)
    kind, x = base_val
    if ref.kind == 'unspecified':
        ctx.count('ref_unspecified')
        ctx.case([spec, text], len(digests) >= 2)
        return
    ctx.count('ref_judged')
    if rules.get('ambiguous-rejected'):
        ctx.count('ref_ambiguous_rejected')
    if rules.get('class-ambiguity-resolved-by-tag') or (
            ref.kind == 'accept' and rules.get('tag-agrees')
            and rules.get('tag-conflict')):
        # a tag that agrees with one candidate and rules out another one
        ctx.count('ref_tag_disambiguated')
    if rules.get('tag-conflict') or rules.get('tag-unknown'):
        ctx.count('ref_tag_conflict')
    feat = ','.join(sorted(k for k in rules if k in (
        'ambiguous-rejected', 'class-ambiguity-resolved-by-tag',
        'tag-conflict', 'tag-unknown', 'tag-agrees', 'class-ambiguous',
        'custom-recognizer', 'model-multiple-inheritance'))) or 'plain'
    if ref.kind == 'accept':
        if kind != 'ok':
            ctx.violation(
                'C03 rejected-although-unique-candidate rules=%s' % feat,
                'document %r (type %r) has the unique reading %s, load '
                'raised %s: %s' % (text[:200], spec['doc_type'], c02.short(
                    V.vdigest(ref.value)), type(x).__name__, str(x)[-200:]),
                case)
        elif not V.vsame(x, ref.value):
            ctx.violation(
                'C03 wrong-class-or-value %s rules=%s' % (
                    c02.diff_kind(V.vdigest(x), V.vdigest(ref.value)), feat),
                'document %r (type %r): load returned %s, the most-derived '
                'unique match is %s' % (text[:200], spec['doc_type'],
                                        c02.short(V.vdigest(x)), c02.short(
                                            V.vdigest(ref.value))), case)
        else:
            if V.has_instance(x):
                ctx.count('accepted_polymorphic')
    else:
        if kind == 'ok':
            ctx.violation(
                'C03 accepted-without-unique-candidate reason=%s rules=%s' % (
                    c02.reason_kind(ref.reason), feat),
                'document %r (type %r) must be rejected (%s), load returned '
                '%s' % (text[:200], spec['doc_type'], ref.reason, c02.short(
                    V.vdigest(x))), case)
    ctx.case([spec, text], True)
    if len(ctx.samples) < 4 and ref.kind == 'accept' and kind == 'ok' and \
            V.has_instance(x):
        ctx.sample({'doc_type': spec['doc_type'], 'text': text[:200],
                    'classes': [c['name'] + ('(abstract)' if c.get('abc') or c.get('keep_abstract') or c.get('abstractmethod')
                                             else '') for c in
                                spec['classes']],
                    'loaded': c02.short(V.vdigest(x), 200),
                    'orderings_compared': len(digests)}, 'case')


def seeds_for(spec, rng):
    nu = count_union_members(spec['doc_type'])
    for c in spec['classes']:
        for p in c.get('params', []):
            if p['type'] != 'untyped':
                nu = max(nu, count_union_members(p['type']))
    seeds = [(0, 0)]
    for _ in range(2):
        seeds.append((rng.randint(1, 10 ** 6), 0))
    if nu >= 2:
        for _ in range(min(3, nu)):
            seeds.append((0, rng.randint(1, 10 ** 6)))
        seeds.append((rng.randint(1, 10 ** 6), rng.randint(1, 10 ** 6)))
    return seeds


def shard(ctx):
    rng = ctx.rng
    from vlib import modelgen as G
    for _ in range(ctx.budget(300, 4000)):
        push_down_family(ctx, rng)
    n = ctx.budget(2600, 32000)
    for i in range(n):
        if rng.random() < 0.8:
            spec = gen_hierarchy(rng)
        else:
            spec = G.gen_model(rng, 'free')
        try:
            m = H.model_of(spec)
        except Exception as e:
            ctx.count('model_build_failed')
            continue
        spec = H.clean_spec(spec)
        ctx.count('models')
        if spec.get('profile') == 'hier':
            docs = documents(m, spec, rng)
            rng.shuffle(docs)
            docs = docs[:14]
            docs = [wrap(spec, d, rng) for d in docs]
        else:
            from vlib import workload as W
            st = W.Stream(ctx, 'free', mutants=3, soup=0, cycles=0,
                          empties=False)
            docs = []
            kp = W.key_pool(spec)
            cn = W.class_names(spec)
            for v, sp in st.valid_specs(spec, m, 2):
                docs.append(sp)
                for _ in range(3):
                    msp, _w = D.mutate(sp, rng, cn, kp)
                    docs.append(msp)
        seeds = seeds_for(spec, rng)
        for d in docs:
            judge(ctx, spec, d, rng.choice(['block', 'flow', 'json']), seeds)
            if rng.random() < 0.3:
                # the same numbers in other spellings (discriminating
                # recognisers compare values, not texts)
                r2 = D.respell_ints(d, rng)
                if r2 is not None:
                    ctx.count('documents_with_respelled_ints')
                    judge(ctx, spec, r2, rng.choice(['block', 'flow']),
                          seeds)
            if rng.random() < 0.25:
                # one scalar node at two positions (anchor and alias)
                a2 = D.alias_two_scalars(d, rng)
                if a2 is not None:
                    ctx.count('documents_with_aliased_scalar')
                    judge(ctx, spec, a2, rng.choice(['block', 'flow']),
                          seeds)


def push_down_family(ctx, rng):
    """A savorizer of the owner changes which class its items are: the
    owner hands its unit down into the item mappings in place, an item with
    a unit is a UnitReading, one without a plain Reading.  What an item is
    has to be decided on the node as the owner's savorizer left it."""
    base_extra = rng.random() < 0.5
    R = {'name': 'Reading', 'kind': 'plain',
         'params': [{'name': 'value', 'type': 'int'}]}
    if base_extra:
        R['extra'] = True
    U = {'name': 'UnitReading', 'kind': 'plain', 'bases': ['Reading'],
         'params': [{'name': 'value', 'type': 'int'},
                    {'name': 'unit', 'type': 'str'}]}
    if base_extra:
        U['extra'] = True
    L = {'name': 'Log', 'kind': 'plain',
         'params': [{'name': 'readings', 'type': ['list', ['cls', 'Reading']]},
                    {'name': 'unit', 'type': 'str', 'default': 'm'}],
         'savorize': [['push_down', 'readings', 'unit', 'unit',
                       M.enc('m')]]}
    P = {'name': 'PlainLog', 'kind': 'plain',
         'params': [{'name': 'readings',
                     'type': ['list', ['cls', 'Reading']]}]}
    dt = rng.choice([['cls', 'Log'], ['list', ['cls', 'Log']],
                     ['union', ['cls', 'Log'], ['cls', 'PlainLog']],
                     ['dict', 'str', ['cls', 'Log']]])
    spec = {'classes': [R, U, L, P], 'doc_type': dt, 'profile': 'push'}
    try:
        H.model_of(spec)
    except Exception:
        ctx.count('model_build_failed')
        return
    spec = H.clean_spec(spec)

    def item(i):
        pairs = [[N.s_str('value'), N.s_int(i)]]
        r = rng.random()
        if r < 0.3:
            pairs.append([N.s_str('unit'), N.s_str(rng.choice(['s', 'kg']))])
        elif r < 0.4:
            pairs.append([N.s_str('unit'), N.s_int(3)])
        elif r < 0.5:
            pairs.append([N.s_str('other'), N.s_str('x')])
        return ['map', pairs, 'tag:yaml.org,2002:map']
    pairs = [[N.s_str('readings'), ['seq', [item(i) for i in range(
        rng.randint(0, 3))], 'tag:yaml.org,2002:seq']]]
    if rng.random() < 0.5:
        pairs.append([N.s_str('unit'), N.s_str(rng.choice(['cm', 'K']))])
    if rng.random() < 0.15:
        pairs.append([N.s_str('zz'), N.s_int(1)])
    node = ['map', pairs, 'tag:yaml.org,2002:map']
    if dt[0] == 'list':
        node = ['seq', [node, node], 'tag:yaml.org,2002:seq']
    elif dt[0] == 'dict':
        node = ['map', [[N.s_str('k'), node]], 'tag:yaml.org,2002:map']
    ctx.count('push_down_family_documents')
    judge(ctx, spec, node, rng.choice(['block', 'flow', 'json']),
          seeds_for(spec, rng))


def replay(ctx, case):
    judge(ctx, case['spec'], case['nspec'], case['style'],
          [tuple(s) for s in case['seeds']])
