"""C10 - seasoning and recognition hooks run once, own class only, bases
first.

Monitor: an online trace checker over the event log of generated,
self-instrumenting classes.  Every _yatiml_recognize / _yatiml_savorize /
_yatiml_sweeten method of the generated classes records (defining class, cls
argument, snapshot of the node it was handed) before doing anything else, and
every __init__ records its arguments.  Histories are unambiguous: each class
mapping of a generated document carries a unique `uid`, visible in the node
snapshots and in the constructor arguments, so every event is attributed to
the object it belongs to.

Workload: every single-inheritance chain K1 <- ... <- Kn (n <= 4) x every
subset of classes defining each hook kind, with unregistered mix-ins that
define all three hooks, an unrelated registered class with all hooks, an
optional unregistered or abstract root; objects of every concrete level at
every position kind (top level, list item, dict value, attribute, Union
member, Optional).  Savorizers repair the sugared form the document is
written in (and would break the constructor call if skipped), so a protocol
violation normally changes the outcome as well as the trace.
"""
import collections
import itertools

import yaml

import yatiml
from vlib import harness as H
from vlib import models as M
from vlib import nodes as N
from vlib import values as V

PROPERTY = 'C10'
RULE = ('cases = (chain model, document or value). Chain models: n in 1..4 '
        'plain classes in single inheritance, each hook kind (recognize, '
        'savorize, sweeten) defined on a subset of the classes (quick: all '
        'savorize x sweeten subsets with rotating recognize subsets; '
        'thorough: all three), unregistered mix-in bases that define all '
        'three hooks, an unrelated registered class with all hooks, '
        'optionally an unregistered or abstract root, optionally one '
        'savorizer raising SeasoningError. Each model is loaded from and '
        'dumped to documents holding objects of every concrete level at top '
        'level, in a list, in a dict, as attribute, under Union and '
        'Optional. Non-trivial: at least one hook event was attributed to an '
        'object and compared with the expected call list; distinct by '
        '(model, position kind).')
ASSUMPTIONS = [
    'diamonds and unregistered intermediate classes are outside the '
    'quantifier (not generated); an unregistered root is treated like a '
    'mix-in: its hooks must not run',
    'one family has an object mapping referenced twice (anchor and alias): '
    'each reference is taken as a node of its own, seasoned by the whole '
    'chain once, from the same unseasoned form (C18: aliases are '
    'transparent); the other documents contain no aliases',
    '_yatiml_recognize may be consulted any number of times; only the class '
    'it is consulted for is judged',
]

EXHAUSTIVE = True


def requirements(tier):
    q = tier == 'quick'
    return {'models': 5000 if q else 50000,
            'loads': 10000 if q else 100000,
            'dumps': 10000 if q else 100000,
            'objects_savorize_checked': 50000 if q else 500000,
            'objects_sweeten_checked': 70000 if q else 700000,
            'savorize_events': 60000 if q else 600000,
            'sweeten_events': 80000 if q else 800000,
            'recognize_events': 200000 if q else 2000000,
            'seasoning_error_loads': 1500 if q else 15000,
            'partial_registration_loads': 3000 if q else 30000}


# ---------------------------------------------------------------------------
# model construction

def chain_spec(n, sav, swe, rec, mix, root_mode, raiser, other_hooks=True,
               mix_first=False, bare_raise=False, mix_alias=None):
    """sav/swe/rec/mix: sets of levels (1-based). root_mode: 'reg' | 'unreg'
    | 'abc'. raiser: level whose savorizer raises SeasoningError or None."""
    classes = []
    for i in sorted(mix):
        classes.append({'name': 'Mix%d' % i, 'kind': 'plain', 'params': [],
                        'registered': False, 'recognize': ['any'],
                        'savorize': [['record']], 'sweeten': [['record']]})
        if mix_alias:
            # an unregistered mix-in that is *called* like a registered
            # class (the unrelated one, or a class of the chain)
            classes[-1]['py_name'] = mix_alias
    params = [{'name': 'uid', 'type': 'int'}]
    for i in range(1, n + 1):
        params = [p for p in params if 'default' not in p] + \
            [{'name': 'req%d' % i, 'type': 'int'}] + \
            [p for p in params if 'default' in p] + \
            [{'name': 'p%d' % i, 'type': 'int', 'default': 0}]
        c = {'name': 'K%d' % i, 'kind': 'plain',
             'params': [dict(p) for p in params]}
        bases = []
        if i > 1:
            bases.append('K%d' % (i - 1))
        if i in mix:
            if mix_first:
                bases.insert(0, 'Mix%d' % i)
            else:
                bases.append('Mix%d' % i)
        if bases:
            c['bases'] = bases
        if i == 1 and root_mode == 'unreg':
            c['registered'] = False
        if i == 1 and root_mode == 'abc':
            c['abc'] = True
        if i in rec:
            c['recognize'] = ['all', ['attr', 'uid', None]] + [
                ['attr', 'req%d' % j, None] for j in range(1, i + 1)]
        if i in sav:
            c['savorize'] = [['rename', 's%d' % i, 'p%d' % i]]
            if raiser == i:
                c['savorize'].append(['raise_seasoning_bare' if bare_raise
                                      else 'raise_seasoning'])
        if i in swe:
            c['sweeten'] = [['rename', 'p%d' % i, 's%d' % i]]
        classes.append(c)
    other = {'name': 'Other', 'kind': 'plain',
             'params': [{'name': 'uid', 'type': 'int'},
                        {'name': 'oreq', 'type': 'str'}]}
    if other_hooks:
        other['recognize'] = ['all', ['attr', 'uid', None],
                              ['attr', 'oreq', None]]
        other['savorize'] = [['record']]
        other['sweeten'] = [['record']]
    classes.append(other)
    # a string-like class with seasoning: also reached as a dict key
    classes.append({'name': 'SK', 'kind': 'userstring',
                    'savorize': [['enum_upper']],
                    'sweeten': [['enum_lower']]})
    root = 'K1' if root_mode != 'unreg' else 'K2'
    rt = ['cls', root]
    classes.append({'name': 'Top', 'kind': 'plain', 'params': [
        {'name': 'uid', 'type': 'int'},
        {'name': 'items', 'type': ['list', rt]},
        {'name': 'table', 'type': ['dict', 'str', rt]},
        {'name': 'one', 'type': rt},
        {'name': 'alt', 'type': ['union', rt, 'int']},
        {'name': 'opt', 'type': ['opt', rt]},
        {'name': 'other', 'type': ['cls', 'Other']},
        {'name': 'alt2', 'type': ['union', 'int', rt, ['cls', 'Other']]},
        {'name': 'names', 'type': ['dict', ['cls', 'SK'], 'int']},
        {'name': 'tagline', 'type': ['cls', 'SK']},
        {'name': 'words', 'type': ['list', ['cls', 'SK']]},
    ]})
    return {'classes': classes, 'doc_type': ['cls', 'Top'], 'root': root,
            'n': n}


def levels(spec):
    """Concrete levels objects can be made of."""
    out = []
    for c in spec['classes']:
        if c['name'].startswith('K') and c.get('registered', True) \
                and not c.get('abc'):
            out.append(int(c['name'][1:]))
    return out


def expected_hooks(spec, level, kind, unreg=()):
    """Classes whose hook of this kind must run for an object of K<level>."""
    out = []
    for c in spec['classes']:
        if not c['name'].startswith('K'):
            continue
        i = int(c['name'][1:])
        if i <= level and c.get('registered', True) and c.get(kind) \
                and c['name'] not in unreg:
            out.append(c['name'])
    return out


class Builder:
    """Makes documents/values with unique uids."""

    def __init__(self, spec, unreg=()):
        self.unreg = set(unreg)     # not registered with this function
        self.spec = spec
        self.uid = 100
        self.cs = {c['name']: c for c in spec['classes']}
        self.want = {}      # uid -> (class name, args) expected on load

    def next_uid(self):
        self.uid += 1
        return self.uid

    def k_plain(self, level):
        """Plain mapping (sugared document form) for an object of K<level>,
        and the constructor arguments it must lead to."""
        c = self.cs['K%d' % level]
        u = self.next_uid()
        doc = collections.OrderedDict()
        args = collections.OrderedDict()
        for p in c['params']:
            nm = p['name']
            if nm == 'uid':
                doc[nm] = u
                args[nm] = u
            elif nm.startswith('req'):
                doc[nm] = 10 * u + int(nm[3:])
                args[nm] = doc[nm]
            else:
                i = int(nm[1:])
                val = 1000 * u + i
                ki = self.cs['K%d' % i]
                # written in sugared form iff the class that owns it has a
                # savorizer that will run (registered)
                if ki.get('savorize') and ki.get('registered', True) \
                        and ki['name'] not in self.unreg:
                    doc['s%d' % i] = val
                else:
                    doc[nm] = val
                args[nm] = val
        self.want[u] = ('K%d' % level, args)
        return doc

    def other_plain(self):
        u = self.next_uid()
        doc = collections.OrderedDict([('uid', u), ('oreq', 'o%d' % u)])
        self.want[u] = ('Other', collections.OrderedDict(doc))
        return doc

    def top_plain(self, lv):
        u = self.next_uid()
        pick = itertools.cycle(lv)
        doc = collections.OrderedDict()
        doc['uid'] = u
        doc['items'] = [self.k_plain(l) for l in lv]
        doc['table'] = collections.OrderedDict(
            ('k%d' % l, self.k_plain(l)) for l in lv)
        doc['one'] = self.k_plain(next(pick))
        doc['alt'] = self.k_plain(next(pick))
        doc['opt'] = self.k_plain(next(pick))
        doc['other'] = self.other_plain()
        doc['alt2'] = self.k_plain(next(pick))
        doc['names'] = collections.OrderedDict(
            (self.sk(), i) for i in range(2))
        doc['tagline'] = self.sk()
        doc['words'] = [self.sk(), self.sk()]
        return doc, u

    def sk(self):
        u = self.next_uid()
        self.want[u] = ('SK', None)
        return 'sk%d' % u


def sk_uid(text):
    t = str(text).lower()
    if t.startswith('sk') and t[2:].isdigit():
        return int(t[2:])
    return None


def uid_of(view):
    """uid of the mapping a hook was handed (top-level keys only); for the
    string-like class the uid is part of the text."""
    if isinstance(view, list) and view[0] == 's':
        return sk_uid(view[2])
    if not isinstance(view, list) or view[0] != 'map':
        return None
    for k, v in view[1]:
        if k[0] == 's' and k[2] == 'uid' and v[0] == 's':
            try:
                return int(v[2])
            except ValueError:
                return None
    return None


def render_plain(data, style, want=None):
    """want given: every object mapping carries the explicit tag of its own
    class (which changes nothing about what it is loaded as)."""
    from vlib import docs as D
    spec = D.spec_of(data)
    if want is not None:
        spec = tag_objects(spec, want)
    return D.render(spec, style)


def tag_objects(spec, want):
    if spec[0] == 'seq':
        return ['seq', [tag_objects(x, want) for x in spec[1]], spec[2]]
    if spec[0] != 'map':
        return spec
    pairs = [[k, tag_objects(v, want)] for k, v in spec[1]]
    tag = spec[2]
    for k, v in spec[1]:
        if k[0] == 's' and k[2] == 'uid' and v[0] == 's':
            try:
                cname = want.get(int(v[2]), (None,))[0]
            except ValueError:
                cname = None
            if cname and cname != 'SK':
                tag = '!' + cname
    return ['map', pairs, tag]


# ---------------------------------------------------------------------------
# the trace checker

def check_trace(ctx, m, spec, case, phase, constructed, tag, unreg=()):
    """constructed: uid -> class name of the object built (load) or dumped.
    phase: 'load' | 'dump'."""
    kind_of = {'load': 'savorize', 'dump': 'sweeten'}[phase]
    by_uid = collections.defaultdict(list)
    first_sav = {}
    init_seq = {}
    regchain = {c['name'] for c in spec['classes']
                if c.get('registered', True) and c['name'] not in unreg}
    for ev in m.events:
        seq, _thr, kind, defining, cls_arg, payload = ev
        if kind == 'init':
            if isinstance(payload, dict) and 'uid' in payload and \
                    type(payload['uid']) is int:
                init_seq.setdefault(payload['uid'], seq)
            continue
        if kind not in ('recognize', 'savorize', 'sweeten'):
            continue
        ctx.count(kind + '_events')
        if defining.startswith('Mix') or defining not in regchain:
            ctx.violation(
                'C10 %s hook-of-unregistered-class-called' % kind,
                '%s._yatiml_%s was called (cls=%s) although %s is not '
                'registered (%s)' % (defining, kind, cls_arg, defining, tag),
                case)
            continue
        if defining != cls_arg:
            ctx.violation(
                'C10 %s inherited-hook-called-for-other-class' % kind,
                '_yatiml_%s defined in %s was called with cls=%s (%s)' % (
                    kind, defining, cls_arg, tag), case)
        u = uid_of(payload)
        if kind == 'recognize':
            if u is not None and u in first_sav:
                # the node was recognised again after savorizing started
                ctx.violation(
                    'C10 recognize after-savorize',
                    '%s._yatiml_recognize saw node uid=%s after its '
                    'savorizing had begun (%s)' % (defining, u, tag), case)
            continue
        if kind != kind_of:
            ctx.violation(
                'C10 %s wrong-phase' % kind,
                '_yatiml_%s of %s ran during a %s (%s)' % (
                    kind, defining, phase, tag), case)
            continue
        if u is None:
            ctx.violation(
                'C10 %s node-without-uid' % kind,
                '%s._yatiml_%s was handed a node that is not the mapping of '
                'an object: %r (%s)' % (defining, kind, payload, tag), case)
            continue
        by_uid[u].append((seq, defining))
        first_sav.setdefault(u, seq)
        if phase == 'load' and u in init_seq and init_seq[u] < seq:
            ctx.violation(
                'C10 savorize after-construction',
                '%s._yatiml_savorize ran on uid=%s after its __init__ (%s)'
                % (defining, u, tag), case)
    # per object: exact call list
    nontrivial = False
    for u, cname in constructed.items():
        if cname.startswith('K'):
            exp = expected_hooks(spec, int(cname[1:]), kind_of, unreg)
        elif cname == 'SK':
            exp = ['SK']
        elif cname == 'Other':
            exp = ['Other'] if m.cspecs['Other'].get(kind_of) else []
        else:
            exp = []
        got = [d for _, d in by_uid.get(u, [])]
        ctx.count('objects_%s_checked' % kind_of)
        if exp or got:
            nontrivial = True
        if got != exp:
            if sorted(got) == sorted(exp):
                what = 'wrong-order'
            elif len(got) != len(set(got)):
                what = 'called-more-than-once'
            elif set(got) < set(exp):
                what = 'hook-skipped'
            elif set(got) > set(exp):
                what = 'extra-hook-called'
            else:
                what = 'wrong-set'
            ctx.violation(
                'C10 %s %s' % (kind_of, what),
                'object uid=%s of class %s: _yatiml_%s calls %s, expected %s '
                '(%s)' % (u, cname, kind_of, got, exp, tag), case)
    # hooks on nodes that did not become objects (failed loads: prefix only)
    for u, evs in by_uid.items():
        if u in constructed:
            continue
        got = [d for _, d in evs]
        if len(got) != len(set(got)):
            ctx.violation(
                'C10 %s called-more-than-once' % kind_of,
                'node uid=%s: _yatiml_%s calls %s (%s)' % (
                    u, kind_of, got, tag), case)
    return nontrivial


def constructed_from_value(v, out):
    args = getattr(v, '_v_args', None)
    if args is not None:
        if type(args.get('uid')) is int:
            out[args['uid']] = type(v).__name__
        for x in args.values():
            constructed_from_value(x, out)
    elif isinstance(v, dict):
        for k, x in v.items():
            constructed_from_value(k, out)
            constructed_from_value(x, out)
    elif isinstance(v, list):
        for x in v:
            constructed_from_value(x, out)
    elif isinstance(v, collections.UserString):
        u = sk_uid(v)
        if u is not None:
            out[u] = type(v).__name__


def build_value(m, plain, want):
    """Object graph for a plain (sugared) document, from the expected args."""
    if isinstance(plain, dict) and 'uid' in plain and plain['uid'] in want:
        cname, args = want[plain['uid']]
        if cname == 'Top':
            kw = collections.OrderedDict()
            for k, x in plain.items():
                kw[k] = build_value(m, x, want)
            return m.classes['Top'](**kw)
        return m.classes[cname](**args)
    if isinstance(plain, dict):
        return collections.OrderedDict(
            (build_value(m, k, want), build_value(m, x, want))
            for k, x in plain.items())
    if isinstance(plain, list):
        return [build_value(m, x, want) for x in plain]
    if isinstance(plain, str) and sk_uid(plain) in want:
        return m.classes['SK'](plain.upper())      # the savorized form
    return plain


def sweetened(spec, cs, cname, args):
    """Expected plain mapping of the dump of an object."""
    out = collections.OrderedDict()
    ren = {}
    if cname.startswith('K'):
        for k in expected_hooks(spec, int(cname[1:]), 'sweeten'):
            i = int(k[1:])
            ren['p%d' % i] = 's%d' % i
    for k, x in args.items():
        out[ren.get(k, k)] = x
    return out


def expected_dump(spec, cs, plain, want):
    if isinstance(plain, dict) and 'uid' in plain and plain['uid'] in want:
        cname, args = want[plain['uid']]
        if cname == 'Top':
            return collections.OrderedDict(
                (k, expected_dump(spec, cs, x, want))
                for k, x in plain.items())
        return sweetened(spec, cs, cname, args)
    if isinstance(plain, dict):
        return collections.OrderedDict(
            (k, expected_dump(spec, cs, x, want)) for k, x in plain.items())
    if isinstance(plain, list):
        return [expected_dump(spec, cs, x, want) for x in plain]
    return plain


def run_case(ctx, params):
    n = params['n']
    spec = chain_spec(n, set(params['sav']), set(params['swe']),
                      set(params['rec']), set(params['mix']),
                      params['root_mode'], params.get('raiser'),
                      params.get('other_hooks', True),
                      params.get('mix_first', False),
                      params.get('toplevel', 0) % 2 == 1,
                      params.get('mix_alias'))
    # registration order: as listed (bases first), or derived classes first
    reg_order = None
    if params.get('derived_first'):
        reg_order = [c['name'] for c in reversed(spec['classes'])]
        ctx.count('models_registered_derived_first')
    if params.get('mix_alias') and params['mix']:
        ctx.count('models_with_mixin_named_like_a_registered_class')
    root = spec['root']
    m = H.model_of({'classes': spec['classes'], 'doc_type': spec['doc_type']})
    case = dict(params)
    tag = 'n=%d sav=%s swe=%s rec=%s mix=%s%s root=%s raiser=%s' % (
        n, sorted(params['sav']), sorted(params['swe']),
        sorted(params['rec']), sorted(params['mix']),
        '(first)' if params.get('mix_first') else '', params['root_mode'],
        params.get('raiser'))
    lv = levels(spec)
    if not lv:
        return
    ctx.count('models')
    cell = 'n%d' % n
    b = Builder(spec)
    style = params.get('style', 'block')
    raiser = params.get('raiser')

    # ---- load: the Top document (all positions) and a top-level object -----
    docs = []
    top, topu = b.top_plain(lv)
    b.want[topu] = ('Top', None)
    docs.append((spec['doc_type'], top, 'positions'))
    tl = b.k_plain(lv[params.get('toplevel', 0) % len(lv)])
    docs.append((['cls', root], tl, 'toplevel'))
    tagged = [(dt, pl, pos + '-explicitly-tagged') for dt, pl, pos in docs]
    for doc_type, plain, pos in docs + tagged:
        text = render_plain(plain, style, b.want if pos.endswith(
            '-explicitly-tagged') else None)
        try:
            load = m.load_fn(doc_type, order=reg_order)
        except Exception as e:
            ctx.violation('C10 load-function-creation-failed',
                          '%s: %s (%s)' % (type(e).__name__, e, tag), case)
            return
        m.reset()
        kind, x = H.run_load(load, text)
        ctx.count('loads')
        uids_in_doc = {}
        collect_uids(plain, b.want, uids_in_doc)
        raising = raiser is not None and b.cs['K%d' % raiser].get(
            'registered', True) and any(
            c.startswith('K') and int(c[1:]) >= raiser
            for c in uids_in_doc.values())
        if raising:
            ctx.count('seasoning_error_loads')
            if kind == 'ok':
                ctx.violation(
                    'C10 seasoning-error swallowed',
                    'K%d._yatiml_savorize raised SeasoningError but the load '
                    'returned a value (%s, %s)' % (raiser, pos, tag), case)
            elif not isinstance(x, yatiml.RecognitionError):
                ctx.violation(
                    'C10 seasoning-error surfaced-as-%s' % type(x).__name__,
                    'K%d._yatiml_savorize raised SeasoningError; the load '
                    'raised %s: %s (%s, %s)' % (
                        raiser, type(x).__name__, str(x)[:200], pos, tag),
                    case)
            nt = check_trace(ctx, m, spec, case, 'load', {}, tag + ' ' + pos)
            ctx.case([tag, pos, 'load-raise'], True)
            continue
        if kind != 'ok':
            ctx.violation(
                'C10 load-failed %s' % type(x).__name__,
                'document written in the sugared form failed to load: %s '
                '(%s, %s); text %r' % (str(x)[-300:], pos, tag, text[:300]),
                case)
            check_trace(ctx, m, spec, case, 'load', {}, tag + ' ' + pos)
            ctx.case([tag, pos, 'load'], True)
            continue
        constructed = {}
        constructed_from_value(x, constructed)
        # outcome: classes and arguments as intended
        for u, cname in uids_in_doc.items():
            wcls, wargs = b.want[u]
            if constructed.get(u) != wcls:
                ctx.violation(
                    'C10 load wrong-class-constructed',
                    'uid=%s: expected an object of %s, got %s (%s, %s)' % (
                        u, wcls, constructed.get(u), pos, tag), case)
        for ev in m.events:
            if ev[2] == 'init' and isinstance(ev[5], dict) and \
                    ev[5].get('uid') in b.want:
                wcls, wargs = b.want[ev[5]['uid']]
                if wargs is not None and (ev[4] != wcls or
                                          dict(ev[5]) != dict(wargs)):
                    ctx.violation(
                        'C10 load wrong-constructor-arguments',
                        'uid=%s: %s.__init__ got %r, expected %s %r (%s, %s)'
                        % (ev[5]['uid'], ev[4], dict(ev[5]), wcls,
                           dict(wargs), pos, tag), case)
        nt = check_trace(ctx, m, spec, case, 'load', constructed,
                         tag + ' ' + pos)
        ctx.case([tag, pos, 'load'], nt)

    # ---- one object mapping referenced twice (anchor + alias): every
    # reference is a node of its own, seasoned by the whole chain once --------
    if raiser is None:
        aliased_object(ctx, m, spec, case, tag, lv, root, style)

    # ---- the same classes through a function that registers fewer of them ----
    # (a class-level memo of "registered bases" would leak between functions)
    if n >= 2 and params['root_mode'] == 'reg' and raiser is None:
        partial_registration(ctx, m, spec, case, tag, lv, style)
        # dump functions over the same classes with other registrations,
        # before and after the fully registered one below
        first_partial = params.get('toplevel', 0) % 2 == 0
        partial_dump(ctx, m, spec, case, tag, lv, first_partial)

    # ---- dump ----------------------------------------------------------------
    for doc_type, plain, pos in docs:
        uids_in_doc = {}
        collect_uids(plain, b.want, uids_in_doc)
        m.reset()
        try:
            obj = build_value(m, plain, b.want)
        except Exception as e:
            ctx.note('value construction failed: %r' % (e,))
            continue
        try:
            dumps = m.dumps_fn(order=reg_order)
        except Exception as e:
            ctx.violation('C10 dumps-function-creation-failed',
                          '%s: %s (%s)' % (type(e).__name__, e, tag), case)
            return
        m.reset()
        try:
            text = dumps(obj)
        except Exception as e:
            ctx.violation('C10 dumps-raised %s' % type(e).__name__,
                          '%s (%s, %s)' % (str(e)[:300], pos, tag), case)
            continue
        ctx.count('dumps')
        constructed = dict(uids_in_doc)
        nt = check_trace(ctx, m, spec, case, 'dump', constructed,
                         tag + ' ' + pos)
        # first sweeten event of an object sees the node built from the
        # object's attributes: keys = constructor parameters in order
        seen_first = set()
        for ev in m.events:
            if ev[2] != 'sweeten':
                continue
            u = uid_of(ev[5])
            if u is None or u in seen_first or u not in b.want \
                    or ev[5][0] != 'map':
                continue
            seen_first.add(u)
            wcls, wargs = b.want[u]
            if wargs is None:
                continue
            keys = [k[2] for k, _ in ev[5][1]]
            if keys != list(wargs.keys()):
                ctx.violation(
                    'C10 sweeten first-hook-saw-modified-node',
                    'uid=%s %s: first _yatiml_sweeten (%s) saw keys %s, the '
                    'object has attributes %s (%s, %s)' % (
                        u, wcls, ev[3], keys, list(wargs.keys()), pos, tag),
                    case)
        try:
            back = yaml.safe_load(text)
        except yaml.YAMLError as e:
            ctx.violation('C10 dump unparseable', str(e)[:200], case)
            continue
        exp = expected_dump(spec, b.cs, plain, b.want)
        if not same_plain(back, exp):
            ctx.violation(
                'C10 dump wrong-result',
                'dump of %s gives %r, expected %r (%s)' % (
                    pos, short(back), short(exp), tag), case)
        ctx.case([tag, pos, 'dump'], nt)
    if n >= 2 and params['root_mode'] == 'reg' and raiser is None:
        partial_dump(ctx, m, spec, case, tag, lv, not first_partial)
        partial_dump(ctx, m, spec, case, tag, lv, first_partial)
    if len(ctx.samples) < 3:
        ctx.sample({'model': tag, 'document': render_plain(tl, style)[:300],
                    'expected_savorize_calls_top_level_object':
                    expected_hooks(spec, int(b.want[tl['uid']][0][1:]),
                                   'savorize')}, 'case')


def partial_registration(ctx, m, spec, case, tag, lv, style):
    unreg = {'K1'}
    names = [c['name'] for c in spec['classes']
             if c.get('registered', True) and c['name'] not in unreg
             and c['name'] != 'Top']
    lv2 = [l for l in lv if l >= 2]
    if not lv2:
        return
    b = Builder(spec, unreg=unreg)
    plain = [b.k_plain(l) for l in lv2]
    text = render_plain(plain, style)
    for round_ in ('partial', 'full-again'):
        try:
            if round_ == 'partial':
                load = m.load_fn(['list', ['cls', 'K2']], order=names)
                un = unreg
                doc = text
            else:
                load = m.load_fn(['list', ['cls', 'K2']])
                un = ()
                b2 = Builder(spec)
                b2.uid = 5000
                plain2 = [b2.k_plain(l) for l in lv2]
                doc = render_plain(plain2, style)
        except Exception as e:
            ctx.note('partial registration: %r' % (e,))
            return
        bb = b if round_ == 'partial' else b2
        pp = plain if round_ == 'partial' else plain2
        m.reset()
        kind, x = H.run_load(load, doc)
        ctx.count('loads')
        ctx.count('partial_registration_loads')
        t2 = '%s %s-registration' % (tag, round_)
        if kind != 'ok':
            ctx.violation(
                'C10 load-failed %s %s-registration' % (
                    type(x).__name__, round_),
                'document failed to load through a function that registers '
                '%s: %s (%s); text %r' % (
                    'all classes but K1' if round_ == 'partial' else
                    'all classes again', str(x)[-300:], t2, doc[:300]), case)
            check_trace(ctx, m, spec, case, 'load', {}, t2, un)
            continue
        constructed = {}
        constructed_from_value(x, constructed)
        uids = {}
        collect_uids(pp, bb.want, uids)
        for u, cname in uids.items():
            if constructed.get(u) != cname:
                ctx.violation(
                    'C10 load wrong-class-constructed',
                    'uid=%s: expected %s, got %s (%s)' % (
                        u, cname, constructed.get(u), t2), case)
        for ev in m.events:
            if ev[2] == 'init' and isinstance(ev[5], dict) and \
                    ev[5].get('uid') in bb.want:
                wcls, wargs = bb.want[ev[5]['uid']]
                if wargs is not None and dict(ev[5]) != dict(wargs):
                    ctx.violation(
                        'C10 load wrong-constructor-arguments',
                        'uid=%s: %s.__init__ got %r, expected %r (%s)' % (
                            ev[5]['uid'], ev[4], dict(ev[5]), dict(wargs),
                            t2), case)
        check_trace(ctx, m, spec, case, 'load', constructed, t2, un)
        ctx.case([tag, round_, 'load'], True)


def aliased_object(ctx, m, spec, case, tag, lv, root, style):
    from vlib import docs as D
    from vlib import scalars as S
    b = Builder(spec)
    b.uid = 9000
    level = lv[len(tag) % len(lv)]
    plain = b.k_plain(level)
    u = plain['uid']
    doc = ['seq', [['anchor', 'o', D.spec_of(plain)], ['alias', 'o']],
           S.TAG_SEQ]
    try:
        text = D.render(doc, 'flow' if style in ('flow', 'json') else 'block')
        load = m.load_fn(['list', ['cls', root]])
    except Exception as e:
        ctx.note('aliased object: %r' % (e,))
        return
    m.reset()
    kind, x = H.run_load(load, text)
    ctx.count('loads')
    ctx.count('aliased_object_loads')
    t2 = tag + ' aliased-object'
    if kind != 'ok':
        ctx.violation(
            'C10 load-failed %s aliased-object' % type(x).__name__,
            'an object mapping referenced twice failed to load: %s (%s); '
            'text %r' % (str(x)[-300:], t2, text[:300]), case)
        return
    exp = expected_hooks(spec, level, 'savorize')
    got = [ev[3] for ev in m.events
           if ev[2] == 'savorize' and uid_of(ev[5]) == u]
    inits = [dict(ev[5]) for ev in m.events if ev[2] == 'init'
             and isinstance(ev[5], dict) and ev[5].get('uid') == u]
    wargs = dict(b.want[u][1])
    if got != exp + exp:
        ctx.violation(
            'C10 savorize %s aliased-object' % (
                'hook-skipped' if len(got) < 2 * len(exp)
                else 'called-more-than-once' if len(got) > 2 * len(exp)
                else 'wrong-order'),
            'object uid=%s referenced twice: _yatiml_savorize calls %s, '
            'expected %s for each reference (%s)' % (u, got, exp, t2), case)
    elif [ev[5] for ev in m.events if ev[2] == 'savorize'
          and uid_of(ev[5]) == u][:len(exp)] != [
            ev[5] for ev in m.events if ev[2] == 'savorize'
            and uid_of(ev[5]) == u][len(exp):]:
        views = [ev[5] for ev in m.events if ev[2] == 'savorize'
                 and uid_of(ev[5]) == u]
        ctx.violation(
            'C10 savorize second-reference-saw-seasoned-node aliased-object',
            'object uid=%s referenced twice: the hooks of the second '
            'reference were handed %s, those of the first %s (%s)' % (
                u, short(views[len(exp):]), short(views[:len(exp)]), t2),
            case)
    elif len(inits) != 2 or any(a != wargs for a in inits):
        ctx.violation(
            'C10 load wrong-constructor-arguments aliased-object',
            'object uid=%s referenced twice: constructor calls %r, expected '
            'twice %r (%s)' % (u, inits, wargs, t2), case)
    ctx.case([tag, 'aliased-object'], bool(exp))


def partial_dump(ctx, m, spec, case, tag, lv, partial):
    """Dump objects of the chain through a dump function that registers all
    classes but K1 (partial) or all of them: which hooks run depends on the
    function used for this dump only, whatever other dump functions over the
    same classes did before."""
    unreg = {'K1'} if partial else set()
    names = [c['name'] for c in spec['classes']
             if c.get('registered', True) and c['name'] not in unreg]
    lv2 = [l for l in lv if l >= 2]
    if not lv2:
        return
    b = Builder(spec, unreg=unreg)
    b.uid = 7000 if partial else 8000
    plain = [b.k_plain(l) for l in lv2]
    t2 = '%s %s-registration-dump' % (tag, 'partial' if partial else 'full')
    try:
        objs = build_value(m, plain, b.want)
        dumps = m.dumps_fn(order=names)
    except Exception as e:
        ctx.note('partial dump: %r' % (e,))
        return
    m.reset()
    try:
        dumps(objs)
    except Exception as e:
        ctx.violation('C10 dumps-raised %s' % type(e).__name__,
                      '%s (%s)' % (str(e)[:300], t2), case)
        return
    ctx.count('dumps')
    ctx.count('partial_registration_dumps')
    uids = {}
    collect_uids(plain, b.want, uids)
    check_trace(ctx, m, spec, case, 'dump', dict(uids), t2, unreg)
    ctx.case([tag, 'partial-dump', partial], True)


def same_plain(a, b):
    if isinstance(a, dict) and isinstance(b, dict):
        return list(a.keys()) == list(b.keys()) and all(
            same_plain(a[k], b[k]) for k in a)
    if isinstance(a, list) and isinstance(b, list):
        return len(a) == len(b) and all(
            same_plain(x, y) for x, y in zip(a, b))
    return type(a) is type(b) and a == b


def short(x, n=300):
    s = repr(x)
    return s if len(s) <= n else s[:n] + '...'


def collect_uids(plain, want, out):
    if isinstance(plain, str):
        u = sk_uid(plain)
        if u is not None and u in want:
            out[u] = want[u][0]
        return
    if isinstance(plain, dict):
        if 'uid' in plain and plain['uid'] in want:
            out[plain['uid']] = want[plain['uid']][0]
        for k, x in plain.items():
            collect_uids(k, want, out)
            collect_uids(x, want, out)
    elif isinstance(plain, list):
        for x in plain:
            collect_uids(x, want, out)


def subsets(n):
    for r in range(n + 1):
        for c in itertools.combinations(range(1, n + 1), r):
            yield c


def all_params(tier):
    """The enumerated model space: every subset of chain classes defining
    each of the three hook kinds (both tiers); mix-in placement, root mode and
    document style rotate in the quick tier and are enumerated in the
    thorough one."""
    idx = 0
    styles = ['block', 'flow', 'json', 'dq', 'canonical', 'sq']
    for n in (1, 2, 3, 4):
        subs = list(subsets(n))
        for sav in subs:
            for swe in subs:
                for rec in subs:
                    idx += 1
                    mixes = [(), tuple(range(1, n + 1)), (n,), (1,),
                             subs[idx % len(subs)]]
                    roots = ['reg'] if n < 2 else ['reg', 'unreg', 'abc']
                    if tier == 'thorough':
                        combos = [(mx, rm) for mx in mixes[:4] for rm in roots]
                    else:
                        combos = [(mixes[idx % len(mixes)],
                                   (roots + ['reg'])[idx % (len(roots) + 1)])]
                    for ci, (mix, root_mode) in enumerate(combos):
                        p = {'n': n, 'sav': list(sav), 'swe': list(swe),
                             'rec': list(rec), 'mix': list(mix),
                             'root_mode': root_mode, 'raiser': None,
                             'style': styles[(idx + ci) % len(styles)],
                             'toplevel': idx + ci,
                             'other_hooks': (idx + ci) % 5 != 0,
                             'mix_first': (idx // 2 + ci) % 2 == 0,
                             'derived_first': (idx + ci) % 3 == 1,
                             'mix_alias': [None, 'Other', None, 'K1'][
                                 (idx // 3 + ci) % 4]}
                        yield p
                        if sav and (idx + ci) % 3 == 0:
                            q = dict(p)
                            q['raiser'] = sav[(idx + ci) % len(sav)]
                            yield q


# ---------------------------------------------------------------------------
# hierarchies of classes that are written as scalars: string-like classes
# (S1 <- S2) and enums (member-less base BE <- E), with unregistered mix-ins

def make_scalar_chain(p):
    """p: kind 'str'|'enum', sav/swe/rec: levels (1, 2) defining the hook,
    mix: level that also derives from an unregistered mix-in defining all
    hooks (0: none), mix_first, reg: registered levels."""
    import enum
    log = []

    def hook(kind, owner):
        def f(cls, node):
            log.append((kind, owner, cls.__name__))
        f.__name__ = '_yatiml_' + kind
        return classmethod(f)

    def body(level):
        d = {}
        for kind in ('recognize', 'savorize', 'sweeten'):
            if level in p[kind[:3]]:
                d['_yatiml_' + kind] = hook(kind, 'S%d' % level)
        return d
    mix = type('MixS', (), {'_yatiml_' + k: hook(k, 'MixS') for k in (
        'recognize', 'savorize', 'sweeten')})

    def bases(level, main):
        if p['mix'] != level:
            return main
        return (mix,) + main if p['mix_first'] else main + (mix,)
    if p['kind'] == 'str':
        d1 = body(1)
        s1 = type('S1', bases(1, (collections.UserString,)), d1)
        s2 = type('S2', bases(2, (s1,)), body(2))
    else:
        # enum.EnumMeta wants mix-ins before the Enum base
        def ebases(level, main):
            return (mix,) + main if p['mix'] == level else main
        s1 = enum.EnumMeta('S1', ebases(1, (enum.Enum,)),
                           _enum_body(enum.EnumMeta, 'S1', ebases(
                               1, (enum.Enum,)), body(1), {}))
        s2 = enum.EnumMeta('S2', ebases(2, (s1,)),
                           _enum_body(enum.EnumMeta, 'S2', ebases(
                               2, (s1,)), body(2), {'aa': 1, 'bb': 2}))
    return s1, s2, log


def _enum_body(meta, name, bases, hooks, members):
    d = meta.__prepare__(name, bases)
    for k, v in hooks.items():
        d[k] = v
    for k, v in members.items():
        d[k] = v
    return d


def scalar_chain_params():
    for kind in ('str', 'enum'):
        for sav in subsets(2):
            for swe in subsets(2):
                for ri, rec in enumerate(subsets(2)):
                    for mix in (0, 1, 2):
                        for reg in ((1, 2), (2,)):
                            yield {'kind': kind, 'sav': list(sav),
                                   'swe': list(swe), 'rec': list(rec),
                                   'mix': mix, 'reg': list(reg),
                                   'mix_first': (ri + mix) % 2 == 0,
                                   'scalar_chain': True}


def run_scalar_chain(ctx, p):
    from typing import Dict, List
    try:
        s1, s2, log = make_scalar_chain(p)
    except Exception as e:      # noqa
        ctx.count('scalar_chain_unavailable_' + p['kind'])
        ctx.note('scalar chain %r: %r' % (p, e))
        return
    regd = [c for i, c in ((1, s1), (2, s2)) if i in p['reg']]
    tag = 'scalar-chain %s reg=%s mix=%s' % (p['kind'], p['reg'], p['mix'])
    if p['kind'] == 'str':
        vals = [s2('aa'), s2('bb')]
        texts = ['aa', 'bb']
    else:
        vals = [s2.aa, s2.bb]
        texts = ['aa', 'bb']
    try:
        load1 = yatiml.load_function(s2, *regd)
        loadl = yatiml.load_function(List[s2], *regd)
        loadd = yatiml.load_function(Dict[str, s2], *regd)
        dumps = yatiml.dumps_function(*regd)
        dumpj = yatiml.dumps_json_function(*regd)
    except Exception as e:      # noqa
        ctx.count('scalar_chain_unavailable_' + p['kind'])
        ctx.note('scalar chain functions %r: %r' % (p, e))
        return
    ctx.count('scalar_chain_models')

    def expect(kind):
        return [('S%d' % i) for i in (1, 2)
                if i in p['reg'] and i in p[kind[:3]]]

    def judge(kind, n_objects, what):
        evs = [e for e in log if e[0] == kind]
        other = [e for e in log if e[0] not in (kind, 'recognize')]
        for k, owner, clsname in log:
            ctx.count('scalar_chain_%s_events' % k)
            if owner == 'MixS' or (owner == 'S1' and 1 not in p['reg']):
                ctx.violation(
                    'C10 %s hook-of-unregistered-class-called scalar-class'
                    % k, '%s._yatiml_%s was called (cls=%s) although %s is '
                    'not registered (%s, %s)' % (owner, k, clsname, owner,
                                                 tag, what), p)
                return
            if owner != clsname:
                ctx.violation(
                    'C10 %s inherited-hook-called-for-other-class '
                    'scalar-class' % k,
                    '_yatiml_%s defined in %s was called with cls=%s (%s, '
                    '%s)' % (k, owner, clsname, tag, what), p)
                return
        if other:
            ctx.violation('C10 %s wrong-phase scalar-class' % other[0][0],
                          '%r during %s (%s)' % (other[0], what, tag), p)
            return
        got = [e[1] for e in evs]
        want = expect(kind) * n_objects
        ctx.count('scalar_chain_objects_checked', n_objects)
        if got != want:
            if sorted(got) == sorted(want):
                kw = 'wrong-order'
            elif len(got) > len(want):
                kw = 'called-more-than-once' if set(got) <= set(want) \
                    else 'extra-hook-called'
            else:
                kw = 'hook-skipped'
            ctx.violation(
                'C10 %s %s scalar-class' % (kind, kw),
                '%s of %d object(s) of S2: _yatiml_%s calls %s, expected %s '
                '(%s)' % (what, n_objects, kind, got, want, tag), p)

    for fn, text, n, what in (
            (load1, 'aa\n', 1, 'load top level'),
            (loadl, '[aa, bb]\n', 2, 'load list'),
            (loadd, 'x: aa\ny: bb\n', 2, 'load dict values')):
        del log[:]
        try:
            fn(text)
        except Exception as e:      # noqa
            ctx.violation('C10 scalar-class load-failed %s' % type(
                e).__name__, '%s of %r raised %s: %s (%s)' % (
                    what, text, type(e).__name__, str(e)[-200:], tag), p)
            continue
        ctx.count('loads')
        judge('savorize', n, what)
    for fn, v, n, what in ((dumps, vals[0], 1, 'dump top level'),
                           (dumps, list(vals), 2, 'dump list'),
                           (dumps, {'x': vals[0], 'y': vals[1]}, 2,
                            'dump dict values'),
                           (dumpj, list(vals), 2, 'dump json list')):
        del log[:]
        try:
            fn(v)
        except Exception as e:      # noqa
            ctx.violation('C10 scalar-class dump-failed %s' % type(
                e).__name__, '%s raised %s: %s (%s)' % (
                    what, type(e).__name__, str(e)[-200:], tag), p)
            continue
        ctx.count('dumps')
        judge('sweeten', n, what)
    ctx.case(p, True)


def run_null_form(ctx):
    """A class whose short form is "nothing" (null, or no node at all: an
    empty document): recognised by its own _yatiml_recognize, turned into a
    mapping by its savorizer.  The hooks run for it like for any node."""
    from typing import List, Optional
    log = []

    class Defaults:
        def __init__(self, a: int = 1) -> None:
            self.a = a

        @classmethod
        def _yatiml_recognize(cls, node):
            log.append(('recognize', cls.__name__))

        @classmethod
        def _yatiml_savorize(cls, node):
            log.append(('savorize', cls.__name__))
            if node.is_scalar(type(None)):
                node.make_mapping()

    class Holder:
        def __init__(self, d: Defaults, e: int = 0) -> None:
            self.d = d
    load = yatiml.load_function(Defaults)
    loadl = yatiml.load_function(List[Defaults], Defaults)
    loadh = yatiml.load_function(Holder, Defaults)
    for fn, text, n, what in (
            (load, '', 1, 'empty document'),
            (load, '# nothing here\n', 1, 'comment-only document'),
            (load, '---\n', 1, 'document start only'),
            (load, '~\n', 1, 'null'), (load, 'null\n', 1, 'null'),
            (load, 'a: 3\n', 1, 'mapping'),
            (loadl, '[~, {a: 2}, null]\n', 3, 'list of null forms'),
            (loadl, '- \n- \n', 2, 'list of empty items'),
            (loadh, 'd:\n', 1, 'empty attribute value'),
            (loadh, 'd: ~\ne: 1\n', 1, 'null attribute value')):
        del log[:]
        case = {'null_form': True, 'text': text}
        try:
            v = fn(text)
        except Exception as e:      # noqa
            ctx.violation(
                'C10 null-form load-failed %s' % type(e).__name__,
                '%s (%r) raised %s: %s' % (what, text, type(e).__name__,
                                           str(e)[-200:]), case)
            continue
        ctx.count('loads')
        ctx.count('null_form_loads')
        got = [k for k, _ in log if k == 'savorize']
        if len(got) != n:
            ctx.violation(
                'C10 savorize %s null-form' % (
                    'hook-skipped' if len(got) < n
                    else 'called-more-than-once'),
                '%s (%r): Defaults._yatiml_savorize ran %d times for %d '
                'object(s); loaded %r' % (what, text, len(got), n, v), case)
        objs = v if isinstance(v, list) else [
            v.d if isinstance(v, Holder) else v]
        if not all(isinstance(o, Defaults) for o in objs):
            ctx.violation(
                'C10 null-form wrong-class-constructed',
                '%s (%r) loaded as %r' % (what, text, v), case)
    ctx.case(['null-form'], True)


def shard(ctx):
    if ctx.shard == 0:
        run_null_form(ctx)
    for i, p in enumerate(all_params(ctx.tier)):
        if not ctx.mine(i):
            continue
        run_case(ctx, p)
    for i, p in enumerate(scalar_chain_params()):
        if not ctx.mine(i):
            continue
        run_scalar_chain(ctx, p)


def replay(ctx, case):
    if case.get('null_form'):
        run_null_form(ctx)
    elif case.get('scalar_chain'):
        run_scalar_chain(ctx, case)
    else:
        run_case(ctx, case)
