"""C15 - structural seasoning transforms are inverse pairs and no-ops when not
applicable.

Monitor: each yatiml.Node transform is executed on a generated node; the plain
view of the wrapped node before/after and the exception (if any) are compared
with an independent model of the documented behaviour working on plain specs;
inverse laws are checked by composing the real transforms.
"""
import copy
import itertools

import yaml

import yatiml
from vlib import nodes as N
from vlib import scalars as S

PROPERTY = 'C15'
RULE = ('cases = (mapping node, transform, attribute, key attribute, value '
        'attribute, strict). Nodes: a grid over attribute value kinds {seq of '
        'mappings, mapping of mappings, mapping of scalars, mixed mapping, '
        'scalar, seq with a non-mapping item, missing, item without key '
        'attribute, duplicate keys, non-string key value, empty} x items with '
        '0-3 other keys whose values are scalars, sequences or mappings, x '
        'key attribute in {present, absent} x value attribute in {None, '
        'present, absent}, plus random nodes. Each single transform is '
        'compared with a model written from the docstrings; round trips '
        'seq->map->seq, index->map->index and dashes<->unders '
        'are checked on applicable nodes. Non-trivial: the transform was '
        'applicable (node changed) or an inverse pair was executed.')
ASSUMPTIONS = [
    'keys are unique string scalars inside every mapping (statement domain); '
    'duplicate *key-attribute values* are generated on purpose',
    'for nodes that are not of the documented kind (non-mapping items, item '
    'without the key attribute, key value not a string) either a silent no-op '
    'or SeasoningError with the node unchanged is accepted',
    'map_attribute_to_index on an inner mapping that already holds the key '
    'attribute: the attribute must end up present exactly once; its value is '
    'not judged when it differs from the outer key',
]


def requirements(tier):
    q = tier == 'quick'
    return {'single_transform_cases': 120000 if q else 1500000,
            'applicable_changed': 25000 if q else 300000,
            'not_applicable_cases': 60000 if q else 800000,
            'inverse_pairs': 5000 if q else 60000,
            'dash_under_cases': 300,
            'strict_duplicate_cases': 100}


# ---------------------------------------------------------------------------
# model on specs

class Noop(Exception):
    pass


def get_attr(top, name):
    hits = [v for k, v in top[1] if k[0] == 's' and k[2] == name]
    return hits


def is_map(s):
    return s[0] == 'map'


def is_seq(s):
    return s[0] == 'seq'


def map_keys(m):
    return [k[2] if k[0] == 's' else None for k, _ in m[1]]


def replace_attr(top, name, new):
    out = copy.deepcopy(top)
    for pair in out[1]:
        if pair[0][0] == 's' and pair[0][2] == name:
            pair[1] = new
            break
    return out


def ref_seq_to_map(top, attr, ka, va, strict):
    """-> ('result', spec) | ('noop',) | ('noop_or_seasoning',) |
    ('must_raise',)"""
    hits = get_attr(top, attr)
    if len(hits) != 1:
        return ('noop',)
    a = hits[0]
    if not is_seq(a):
        return ('noop',)
    for it in a[1]:
        if not is_map(it):
            return ('noop_or_seasoning',)
    keys = []
    for it in a[1]:
        kv = get_attr(it, ka)
        if len(kv) != 1:
            return ('noop_or_seasoning',)
        if kv[0][0] != 's' or kv[0][1] != S.TAG_STR:
            return ('noop_or_seasoning',)
        keys.append(kv[0][2])
    if len(set(keys)) != len(keys):
        return ('must_raise',) if strict else ('noop',)
    pairs = []
    for it in a[1]:
        kv = get_attr(it, ka)[0]
        rest = [[k, v] for k, v in it[1] if not (k[0] == 's' and k[2] == ka)]
        if va is not None and len(rest) == 1 and rest[0][0][0] == 's' and \
                rest[0][0][2] == va:
            pairs.append([kv, rest[0][1]])
        else:
            pairs.append([kv, ['map', rest, it[2]]])
    return ('result', replace_attr(top, attr, ['map', pairs, S.TAG_MAP]))


def set_attr_spec(m, name, valspec):
    """Model of Node.set_attribute on a mapping spec (in place semantics)."""
    for pair in m[1]:
        if pair[0][0] == 's' and pair[0][2] == name:
            pair[1] = valspec
            return
    m[1].append([N.s_str(name), valspec])


def ref_map_to_seq(top, attr, ka, va):
    hits = get_attr(top, attr)
    if len(hits) != 1:
        return ('noop',)
    a = hits[0]
    if not is_map(a):
        return ('noop',)
    items = []
    for k, v in a[1]:
        if k[0] != 's':
            return ('unspecified',)
        if is_map(v):
            it = copy.deepcopy(v)
        else:
            if va is None:
                return ('noop',)
            it = ['map', [[N.s_str(va), copy.deepcopy(v)]], S.TAG_MAP]
        set_attr_spec(it, ka, N.s_str(k[2]))
        items.append(it)
    return ('result', replace_attr(top, attr, ['seq', items, S.TAG_SEQ]))


def ref_index_to_map(top, attr, ka, va):
    hits = get_attr(top, attr)
    if len(hits) != 1:
        return ('noop',)
    a = hits[0]
    if not is_map(a):
        return ('noop',)
    for k, v in a[1]:
        if not is_map(v):
            return ('noop_or_seasoning',)
    pairs = []
    for k, v in a[1]:
        rest = [[kk, vv] for kk, vv in v[1]
                if not (kk[0] == 's' and kk[2] == ka)]
        if len(rest) == 1 and va is not None and rest[0][0][0] == 's' \
                and rest[0][0][2] == va:
            pairs.append([k, rest[0][1]])
        else:
            pairs.append([k, ['map', rest, v[2]]])
    return ('result', replace_attr(top, attr, ['map', pairs, a[2]]))


def ref_map_to_index(top, attr, ka, va):
    """-> ('result', spec, loose_items) where loose_items lists outer keys
    whose inner mapping already had the key attribute with another value."""
    hits = get_attr(top, attr)
    if len(hits) != 1:
        return ('noop',)
    a = hits[0]
    if not is_map(a):
        return ('noop',)
    pairs = []
    loose = []
    for k, v in a[1]:
        if not is_map(v):
            if va is None:
                return ('noop',)
            v2 = ['map', [[N.s_str(va), copy.deepcopy(v)]], S.TAG_MAP]
        else:
            v2 = copy.deepcopy(v)
        existing = get_attr(v2, ka)
        if existing:
            if existing[0] != k:
                loose.append(k[2] if k[0] == 's' else None)
        else:
            v2[1].append([N.s_str(ka), copy.deepcopy(k)])
        pairs.append([k, v2])
    return ('result', replace_attr(top, attr, ['map', pairs, a[2]]), loose)


# ---------------------------------------------------------------------------
# generators

def scalar_pool():
    return [N.s_int(1), N.s_str('v'), N.s_float(2.5), N.s_bool(True),
            N.s_null(), N.s_str('')]


def rand_value(rng, allow_map=True):
    r = rng.random()
    if r < 0.6:
        return rng.choice(scalar_pool())
    if r < 0.8 or not allow_map:
        return ['seq', [rng.choice(scalar_pool())
                        for _ in range(rng.randint(0, 2))], S.TAG_SEQ]
    return ['map', [[N.s_str('in'), rng.choice(scalar_pool())]], S.TAG_MAP]


def rand_item(rng, ka, with_key, keyval, others, va_map_ok):
    pairs = []
    names = list(others)
    rng.shuffle(names)
    pos = rng.randint(0, len(names))
    for i, nm in enumerate(names):
        if i == pos and with_key:
            pairs.append([N.s_str(ka), keyval])
        pairs.append([N.s_str(nm), rand_value(rng, va_map_ok)])
    if with_key and pos >= len(names):
        pairs.append([N.s_str(ka), keyval])
    return ['map', pairs, S.TAG_MAP]


KINDS = ['seq_of_maps', 'map_of_maps', 'map_of_scalars', 'map_mixed',
         'scalar', 'seq_with_scalar', 'missing', 'item_without_key',
         'dup_keys', 'nonstr_key', 'empty_seq', 'empty_map', 'index',
         'index_wrongname', 'map_complex_key']


def gen_case(rng, kind=None):
    kind = kind or rng.choice(KINDS)
    ka = rng.choice(['id', 'name', 'item_id'])
    va_name = 'val'
    n = rng.randint(1, 3)
    other_sets = [[], ['val'], ['x'], ['val', 'x'], ['x', 'y'],
                  ['val', 'x', 'y']]
    va_map_ok = rng.random() < 0.3

    kfmt = 'k%d' if rng.random() < 0.7 else 'k_%d'

    def item(i, with_key=True, keyval=None):
        return rand_item(rng, ka, with_key,
                         keyval if keyval is not None
                         else N.s_str(kfmt % i),
                         rng.choice(other_sets), va_map_ok)
    if kind == 'seq_of_maps':
        a = ['seq', [item(i) for i in range(n)], S.TAG_SEQ]
    elif kind == 'map_of_maps':
        a = ['map', [[N.s_str(kfmt % i), item(i, rng.random() < 0.3)]
                     for i in range(n)], S.TAG_MAP]
    elif kind == 'index':
        a = ['map', [[N.s_str(kfmt % i), item(i, True)] for i in range(n)],
             S.TAG_MAP]
    elif kind == 'index_wrongname':
        a = ['map', [[N.s_str(kfmt % i), item(
            i, True, N.s_str('other%d' % i))] for i in range(n)], S.TAG_MAP]
    elif kind == 'map_of_scalars':
        a = ['map', [[N.s_str(kfmt % i), rng.choice(scalar_pool())]
                     for i in range(n)], S.TAG_MAP]
    elif kind == 'map_mixed':
        a = ['map', [[N.s_str(kfmt % i),
                      item(i, rng.random() < 0.3) if rng.random() < 0.5
                      else rand_value(rng, False)]
                     for i in range(n + 1)], S.TAG_MAP]
    elif kind == 'scalar':
        a = rng.choice(scalar_pool())
    elif kind == 'seq_with_scalar':
        its = [item(i) for i in range(n)]
        its.insert(rng.randint(0, n), rng.choice(
            scalar_pool() + [['seq', [], S.TAG_SEQ]]))
        a = ['seq', its, S.TAG_SEQ]
    elif kind == 'item_without_key':
        its = [item(i) for i in range(n)]
        its.insert(rng.randint(0, n), item(9, False))
        a = ['seq', its, S.TAG_SEQ]
    elif kind == 'dup_keys':
        its = [item(i) for i in range(n)] + [item(0)]
        rng.shuffle(its)
        a = ['seq', its, S.TAG_SEQ]
    elif kind == 'nonstr_key':
        its = [item(i) for i in range(n)]
        its.insert(rng.randint(0, n), item(7, True, rng.choice(
            [N.s_int(7), N.s_null(), ['seq', [], S.TAG_SEQ]])))
        a = ['seq', its, S.TAG_SEQ]
    elif kind == 'map_complex_key':
        # one entry of the mapping has a key that is no scalar
        ps = [[N.s_str(kfmt % i), item(i, rng.random() < 0.3)]
              for i in range(n)]
        ps.insert(rng.randint(0, n), [
            ['seq', [N.s_str('p'), N.s_str('q')], S.TAG_SEQ],
            item(8, rng.random() < 0.3) if rng.random() < 0.6
            else rng.choice(scalar_pool())])
        a = ['map', ps, S.TAG_MAP]
    elif kind == 'empty_seq':
        a = ['seq', [], S.TAG_SEQ]
    elif kind == 'empty_map':
        a = ['map', [], S.TAG_MAP]
    else:
        a = None
    top_pairs = [[N.s_str('before'), N.s_int(0)]]
    if rng.random() < 0.15:
        # an entry with a key that is no scalar in front of the attribute:
        # positions in the mapping and positions among the scalar keys differ
        top_pairs.insert(rng.randint(0, 1), [
            ['seq', [N.s_str('x'), N.s_str('y')], S.TAG_SEQ], N.s_int(1)])
    if a is not None:
        top_pairs.append([N.s_str('items'), a])
    top_pairs.append([N.s_str('after'), N.s_str('z')])
    top = ['map', top_pairs, S.TAG_MAP]
    key_attr = ka if rng.random() < 0.85 else 'absent'
    # key and value attribute are different names by construction
    value_attr = rng.choice([None, va_name, va_name, 'missing'])
    return {'kind': kind, 'top': top, 'attr': 'items', 'ka': key_attr,
            'va': value_attr, 'strict': rng.random() < 0.6}


# ---------------------------------------------------------------------------
# running the real transforms

def apply_real(top_spec, name, attr, ka, va, strict=True):
    ynode = N.mk(top_spec)
    node = yatiml.Node(ynode)
    exc = None
    try:
        if name == 'seq_to_map':
            node.seq_attribute_to_map(attr, ka, va, strict)
        elif name == 'map_to_seq':
            node.map_attribute_to_seq(attr, ka, va)
        elif name == 'index_to_map':
            node.index_attribute_to_map(attr, ka, va)
        elif name == 'map_to_index':
            node.map_attribute_to_index(attr, ka, va)
        elif name == 'dashes_to_unders':
            node.dashes_to_unders_in_keys()
        elif name == 'unders_to_dashes':
            node.unders_to_dashes_in_keys()
    except Exception as e:      # noqa
        exc = e
    return exc, N.view(node.yaml_node)


def unique_keys_everywhere(spec):
    if spec[0] == 'map':
        ks = [repr(k) for k, _ in spec[1]]
        if len(set(ks)) != len(ks):
            return False
        return all(unique_keys_everywhere(v) for _, v in spec[1])
    if spec[0] == 'seq':
        return all(unique_keys_everywhere(v) for v in spec[1])
    return True


def judge_single(ctx, case, name):
    top, attr, ka, va = case['top'], case['attr'], case['ka'], case['va']
    strict = case['strict']
    before = N.view(N.mk(top))
    if name == 'seq_to_map':
        ref = ref_seq_to_map(before, attr, ka, va, strict)
    elif name == 'map_to_seq':
        ref = ref_map_to_seq(before, attr, ka, va)
    elif name == 'index_to_map':
        ref = ref_index_to_map(before, attr, ka, va)
    else:
        ref = ref_map_to_index(before, attr, ka, va)
    exc, after = apply_real(top, name, attr, ka, va, strict)
    ctx.count('single_transform_cases')
    wit = dict(case, transform=name)
    changed = after != before
    feat = 'va=%s' % ('none' if va is None else 'given')
    if exc is not None and not isinstance(exc, yatiml.SeasoningError):
        ctx.violation('C15 %s raised %s %s' % (name, type(exc).__name__, feat),
                      '%s raised %s: %s on %r' % (
                          name, type(exc).__name__, exc, before), wit)
        return
    tag = ref[0]
    if tag == 'unspecified':
        ctx.count('unspecified')
    elif tag == 'noop':
        ctx.count('not_applicable_cases')
        if exc is not None:
            ctx.violation('C15 %s raised-on-not-applicable %s' % (name, feat),
                          '%s raised %s where a silent no-op is documented'
                          % (name, exc), wit)
        elif changed:
            ctx.violation('C15 %s changed-not-applicable-node %s' % (
                name, feat),
                '%s changed a node it does not apply to: %r -> %r' % (
                    name, before, after), wit)
    elif tag == 'noop_or_seasoning':
        ctx.count('not_applicable_cases')
        if changed:
            ctx.violation('C15 %s half-rewrite %s' % (name, feat),
                          '%s %s but left the node changed: %r -> %r' % (
                              name, 'raised %s' % exc if exc else 'returned',
                              before, after), wit)
    elif tag == 'must_raise':
        ctx.count('strict_duplicate_cases')
        if exc is None:
            ctx.violation('C15 %s strict-duplicates-not-raised' % name,
                          'duplicate keys in strict mode did not raise', wit)
        elif changed:
            ctx.violation('C15 %s half-rewrite-on-duplicate' % name,
                          'node changed although SeasoningError was raised',
                          wit)
    else:
        want = ref[1]
        if exc is not None:
            ctx.violation('C15 %s raised-on-applicable %s' % (name, feat),
                          '%s raised %s on an applicable node %r' % (
                              name, exc, before), wit)
        else:
            ok = after == want
            if not ok and name == 'map_to_index' and ref[2]:
                ok = unique_keys_everywhere(after)
                ctx.count('unspecified_existing_key_attribute')
            if not ok:
                sub = ''
                if not unique_keys_everywhere(after):
                    sub = ' duplicate-key-produced'
                ctx.violation(
                    'C15 %s wrong-shape%s %s' % (name, sub, feat),
                    '%s produced %r, documented shape %r (from %r)' % (
                        name, after, want, before), wit)
        if changed:
            ctx.count('applicable_changed')
    ctx.case([name, case], changed)
    if len(ctx.samples) < 3 and changed:
        ctx.sample({'transform': name, 'before': before, 'after': after,
                    'ka': ka, 'va': va}, name)


def strip_key(item, ka):
    """item spec minus key attribute -> (rest pairs, key value or None)."""
    kv = [v for k, v in item[1] if k[0] == 's' and k[2] == ka]
    rest = [[k, v] for k, v in item[1] if not (k[0] == 's' and k[2] == ka)]
    return rest, (kv[0] if kv else None)


def same_up_to_key_position(a, b, ka, container):
    """Compare two attribute values item by item ignoring where ka sits."""
    if a[0] != b[0] or len(a[1]) != len(b[1]):
        return False
    for x, y in zip(a[1], b[1]):
        if container == 'map':
            if x[0] != y[0]:
                return False
            x, y = x[1], y[1]
        if x[0] != 'map' or y[0] != 'map':
            if x != y:
                return False
            continue
        if strip_key(x, ka) != strip_key(y, ka):
            return False
    return True


def value_attr_holds_mapping(a, va, container):
    its = a[1] if container == 'seq' else [v for _, v in a[1]]
    for it in its:
        if it[0] == 'map':
            for k, v in it[1]:
                if k[0] == 's' and k[2] == va and v[0] == 'map':
                    return True
        else:
            return False
    return False


def judge_inverse(ctx, case):
    top, attr, ka, va = case['top'], case['attr'], case['ka'], case['va']
    before = N.view(N.mk(top))
    hits = get_attr(before, attr)
    if len(hits) != 1:
        return
    a = hits[0]
    # seq -> map -> seq
    r = ref_seq_to_map(before, attr, ka, va, True)
    if r[0] == 'result' and not (va and value_attr_holds_mapping(
            a, va, 'seq')):
        ctx.count('inverse_pairs')
        ynode = N.mk(top)
        node = yatiml.Node(ynode)
        try:
            node.seq_attribute_to_map(attr, ka, va, True)
            node.map_attribute_to_seq(attr, ka, va)
        except Exception as e:
            ctx.violation('C15 inverse seq-map-seq raised %s' % type(
                e).__name__, '%s on %r' % (e, before), dict(
                    case, transform='inv_seq'))
            return
        after = N.view(node.yaml_node)
        a2 = get_attr(after, attr)[0]
        if not same_up_to_key_position(a, a2, ka, 'seq') or \
                replace_attr(after, attr, a) != before:
            ctx.violation(
                'C15 inverse seq-map-seq not-restored va=%s' % (
                    'none' if va is None else 'given'),
                'seq->map->seq gave %r from %r' % (a2, a),
                dict(case, transform='inv_seq'))
        ctx.case(['inv_seq', case], True)
    # index -> map -> index: inner key attribute must equal the outer key
    r = ref_index_to_map(before, attr, ka, va)
    if r[0] == 'result' and a[0] == 'map' and a[1] and all(
            v[0] == 'map' and get_attr(v, ka) == [k] for k, v in a[1]) \
            and not (va and value_attr_holds_mapping(a, va, 'map')):
        ctx.count('inverse_pairs')
        ynode = N.mk(top)
        node = yatiml.Node(ynode)
        try:
            node.index_attribute_to_map(attr, ka, va)
            node.map_attribute_to_index(attr, ka, va)
        except Exception as e:
            ctx.violation('C15 inverse index-map-index raised %s' % type(
                e).__name__, '%s on %r' % (e, before), dict(
                    case, transform='inv_index'))
            return
        after = N.view(node.yaml_node)
        a2 = get_attr(after, attr)[0]
        if not same_up_to_key_position(a, a2, ka, 'map') or \
                replace_attr(after, attr, a) != before:
            ctx.violation(
                'C15 inverse index-map-index not-restored va=%s' % (
                    'none' if va is None else 'given'),
                'index->map->index gave %r from %r' % (a2, a),
                dict(case, transform='inv_index'))
        ctx.case(['inv_index', case], True)


def judge_dash(ctx, rng_keys):
    """dashes<->unders on keys free of the target character."""
    ctx.count('dash_under_cases')
    pairs = [[N.s_str(k), N.s_int(i)] for i, k in enumerate(rng_keys)]
    top = ['map', pairs, S.TAG_MAP]
    case = {'kind': 'dash', 'keys': rng_keys}
    before = N.view(N.mk(top))
    for first, second, target in (('dashes_to_unders', 'unders_to_dashes', '_'),
                                  ('unders_to_dashes', 'dashes_to_unders', '-')
                                  ):
        exc, mid = apply_real(top, first, None, None, None)
        if exc is not None:
            ctx.violation('C15 %s raised %s' % (first, type(exc).__name__),
                          '%s' % exc, case)
            return
        want_mid = [k.replace('-' if target == '_' else '_', target)
                    for k in rng_keys]
        if N.keys_of(mid) != want_mid or [v for _, v in mid[1]] != [
                v for _, v in before[1]]:
            ctx.violation('C15 %s wrong-keys' % first,
                          'keys %r -> %r, expected %r' % (
                              rng_keys, N.keys_of(mid), want_mid), case)
            return
        if all(target not in k for k in rng_keys):
            ynode = N.mk(top)
            node = yatiml.Node(ynode)
            getattr(node, first + '_in_keys')()
            getattr(node, second + '_in_keys')()
            if N.view(node.yaml_node) != before:
                ctx.violation('C15 inverse %s-%s not-restored' % (
                    first, second), 'keys %r -> %r' % (
                        rng_keys, N.keys_of(N.view(node.yaml_node))), case)
    ctx.case(case, True)


TRANSFORMS = ['seq_to_map', 'map_to_seq', 'index_to_map', 'map_to_index']


def judge_isolation(ctx, case):
    """After a transform produced items, renaming the keys of ONE item
    (through the public Node helpers, which rename key nodes in place) must
    not touch its siblings, and must not influence what the transform
    produces for another node later (no node objects shared between
    items)."""
    top, attr, ka, va = case['top'], case['attr'], case['ka'], case['va']
    for name in ('map_to_seq', 'map_to_index'):
        ynode = N.mk(top)
        node = yatiml.Node(ynode)
        try:
            if name == 'map_to_seq':
                node.map_attribute_to_seq(attr, ka, va)
            else:
                node.map_attribute_to_index(attr, ka, va)
        except Exception:
            continue
        if not node.has_attribute(attr):
            continue
        first = N.view(node.yaml_node)
        coll = node.get_attribute(attr).yaml_node
        if isinstance(coll, yaml.SequenceNode):
            items = list(coll.value)
        elif isinstance(coll, yaml.MappingNode):
            items = [v for _, v in coll.value]
        else:
            continue
        items = [x for x in items if isinstance(x, yaml.MappingNode)]
        if len(items) < 2:
            continue
        ctx.count('isolation_cases')
        others_before = [N.view(x) for x in items[1:]]
        it = yatiml.Node(items[0])
        try:
            it.unders_to_dashes_in_keys()
            if it.has_attribute(ka):
                it.rename_attribute(ka, ka + 'Renamed')
        except Exception as e:
            continue
        others_after = [N.view(x) for x in items[1:]]
        wit = dict(case, transform='isolation')
        if others_after != others_before:
            ctx.violation(
                'C15 %s items-share-node-objects' % name,
                'renaming the keys of the first item produced by %s changed '
                'its siblings: %r -> %r' % (name, others_before,
                                            others_after), wit)
            return
        # the same transform on a fresh copy of the same node, afterwards
        exc, again = apply_real(top, name, attr, ka, va, True)
        if exc is None and again != first:
            ctx.violation(
                'C15 %s result-depends-on-earlier-calls' % name,
                '%s on an equal node gave %r, earlier %r' % (
                    name, again, first), wit)
            return
        ctx.case(['isolation', name, case], True)


def judge_shared_item(ctx, case):
    """seq_attribute_to_map / index_attribute_to_map strip the key attribute
    from the items; an item node that is ALSO the value of another attribute
    (one node object, as for an object referenced twice when dumping) must
    look the same there afterwards."""
    top, attr, ka, va = case['top'], case['attr'], case['ka'], case['va']
    for name in ('seq_to_map', 'index_to_map'):
        ynode = N.mk(top)
        node = yatiml.Node(ynode)
        if not node.has_attribute(attr):
            return
        coll = node.get_attribute(attr).yaml_node
        if isinstance(coll, yaml.SequenceNode):
            items = list(coll.value)
        elif isinstance(coll, yaml.MappingNode):
            items = [v for _, v in coll.value]
        else:
            return
        items = [x for x in items if isinstance(x, yaml.MappingNode)]
        if not items:
            return
        shared = items[-1]
        node.set_attribute('elsewhere', shared)
        before = N.view(shared)
        try:
            if name == 'seq_to_map':
                node.seq_attribute_to_map(attr, ka, va, False)
            else:
                node.index_attribute_to_map(attr, ka, va)
        except yatiml.SeasoningError:
            pass
        except Exception:
            continue
        ctx.count('shared_item_cases')
        after = N.view(node.get_attribute('elsewhere').yaml_node)
        if after != before:
            ctx.violation(
                'C15 %s item-referenced-elsewhere-modified' % name,
                '%s changed an item node that is also the value of another '
                'attribute: %r -> %r' % (name, before, after),
                dict(case, transform='shared_item'))
            return
    ctx.case(['shared_item', case], True)


def judge_shared_attr(ctx, case):
    """The attribute's own node may be the value of another attribute too
    (one dict object referenced twice when dumping): whatever a transform
    does to the named attribute, the other one must look the same
    afterwards."""
    top, attr, ka, va = case['top'], case['attr'], case['ka'], case['va']
    for name in TRANSFORMS:
        node = yatiml.Node(N.mk(top))
        if not node.has_attribute(attr):
            return
        shared = node.get_attribute(attr).yaml_node
        node.set_attribute('elsewhere', shared)
        before = N.view(shared)
        try:
            if name == 'seq_to_map':
                node.seq_attribute_to_map(attr, ka, va, case['strict'])
            elif name == 'map_to_seq':
                node.map_attribute_to_seq(attr, ka, va)
            elif name == 'index_to_map':
                node.index_attribute_to_map(attr, ka, va)
            else:
                node.map_attribute_to_index(attr, ka, va)
        except yatiml.SeasoningError:
            pass
        except Exception:
            continue
        ctx.count('shared_attr_cases')
        after = N.view(node.get_attribute('elsewhere').yaml_node)
        if after != before:
            ctx.violation(
                'C15 %s attribute-node-referenced-elsewhere-modified' % name,
                '%s(%r) changed another attribute that holds the same node: '
                '%r -> %r' % (name, attr, before, after),
                dict(case, transform='shared_attr'))
            return
    ctx.case(['shared_attr', case], True)


def run_case(ctx, case):
    for name in TRANSFORMS:
        judge_single(ctx, case, name)
    judge_inverse(ctx, case)
    judge_isolation(ctx, case)
    judge_shared_item(ctx, case)
    judge_shared_attr(ctx, case)


def shard(ctx):
    rng = ctx.rng
    # grid: every kind x key attr present/absent x value attr options
    per_kind = ctx.budget(3000 * len(KINDS), 40000 * len(KINDS)) // len(KINDS)
    for kind in KINDS:
        for _ in range(max(1, per_kind)):
            run_case(ctx, gen_case(rng, kind))
    keypool = ['a', 'a_b', 'a-b', 'a_b-c', '-', '_', '', 'x-y-z', 'x_y_z',
               'a--b', '__', 'k1',
               # keys that are no identifiers, before or after the change
               '2nd_item', '2nd-item', '10_000', '1-2', 'a_b.c', 'a-b.c',
               'a b_c', 'a b-c', '%_x', '@-x', '\u0663_x', '\u0663-x',
               'gr\u00f6\u00dfe_1', 'gr\u00f6\u00dfe-1', '_lead', '-lead',
               'trail_', 'trail-', 'true_', 'null-', 'class_def', 'def-x',
               'a:b_c', 'a:b-c', '{x}_y', '{x}-y', '1.5_', '"q"_r']
    for _ in range(ctx.budget(800, 8000)):
        ks = rng.sample(keypool, rng.randint(0, 4))
        # keep keys unique also after either replacement
        if len({k.replace('-', '_') for k in ks}) != len(ks):
            continue
        judge_dash(ctx, ks)


def replay(ctx, case):
    if case.get('kind') == 'dash':
        judge_dash(ctx, case['keys'])
        return
    t = case.get('transform')
    if t == 'shared_attr':
        judge_shared_attr(ctx, {k: v for k, v in case.items()
                                if k != 'transform'})
        return
    if t == 'shared_item':
        judge_shared_item(ctx, {k: v for k, v in case.items()
                                if k != 'transform'})
        return
    if t == 'isolation':
        judge_isolation(ctx, {k: v for k, v in case.items()
                              if k != 'transform'})
        return
    base = {k: v for k, v in case.items() if k != 'transform'}
    if t in TRANSFORMS:
        judge_single(ctx, base, t)
    elif t in ('inv_seq', 'inv_index'):
        judge_inverse(ctx, base)
    else:
        run_case(ctx, base)
