"""C11 - load and dump functions are stateless, isolated, and leave PyYAML
untouched.

Shape: history + executable model.  The sequential model is trivial: "the
result of a call is a pure function of (the function's own class set and
type, the argument)".  That function is evaluated by a *fresh process per
call*: at shard start, before any yatiml function exists, the shard forks a
pristine baseline server; for every distinct (class-model spec, function kind,
document type, argument) the server forks a grandchild that builds the
classes, creates the one function, performs the one call and sends back the
outcome digest.  The history process then creates many functions over a pool
of class models that share class names (different definitions), calls them on
valid and invalid input, lets calls fail half-way, runs calls from concurrent
threads on shared function objects - and every single call's outcome must
equal its fresh-process baseline.

Registry monitor: deep snapshots (identity of every constructor/representer
function, pattern text of every implicit resolver, per first character) of
PyYAML's class-level tables on all stock loader/dumper classes and on
yatiml.Loader/yatiml.Dumper, `vars()` of every generated user class, and a
behavioural battery of yaml.safe_load / yaml.safe_dump calls, taken before
and after each history, must be equal.
"""
import collections
import io
import itertools
import os
import pickle
import struct
import sys
import threading
import time

import yaml

import yatiml
from vlib import docs as D
from vlib import harness as H
from vlib import modelgen as G
from vlib import plain
from vlib import values as V

PROPERTY = 'C11'
RULE = ('cases = calls inside histories. A history works on a pool of 3-5 '
        'generated class models that share class names with different '
        'definitions (plus one uniquely named class each); operations: create '
        'load/dumps/dumps_json/dump functions (several instances per model), '
        'call them on valid documents, mutants, documents tagged with classes '
        'of the other models, token soup; dump values, values of foreign '
        'classes (must fail), values with shared sub-objects through '
        'dumps_json (aborts half-way), sinks whose write() raises; then 4-8 '
        'threads run such calls concurrently on the shared function objects '
        '(sys.setswitchinterval(1e-6); thorough: additionally sleep(0) '
        'injected at random yatiml/yaml source lines through sys.monitoring). '
        'Every call outcome (value digest / text / exception class) is '
        'compared with the outcome of the same single call in a fresh forked '
        'process; registry snapshots and a yaml.safe_load/safe_dump battery '
        'are compared before/after every history. Non-trivial: a call whose '
        'outcome was compared with a baseline; distinct by (spec, kind, '
        'argument, phase).')
ASSUMPTIONS = [
    'a forked copy of a process that has imported yatiml and the harness but '
    'never created a yatiml function is a fresh interpreter for the purpose '
    'of the baseline (fork happens before any thread is started)',
    'outcomes are compared as structural value digests, dumped text, or '
    'exception class; of the message text of a RecognitionError the cited '
    'positions and the quoted key names (in order) are compared, nothing '
    'else',
    'CPython serialises bytecodes (GIL): only interleavings at bytecode/line '
    'granularity exist and only those are explored',
]


def requirements(tier):
    q = tier == 'quick'
    return {'histories': 150 if q else 1800,
            'functions_created': 4000 if q else 50000,
            'calls_compared': 30000 if q else 400000,
            'calls_sequential': 12000 if q else 150000,
            'calls_threaded': 12000 if q else 150000,
            'calls_after_failed_call': 3000 if q else 40000,
            'cross_model_tag_calls': 1500 if q else 20000,
            'foreign_class_dumps': 400 if q else 5000,
            'aborted_json_dumps': 300 if q else 4000,
            'baseline_calls': 5000 if q else 60000,
            'partial_registration_calls': 2000 if q else 26000,
            'self_nesting_class_calls': 2000 if q else 26000,
            'full_registration_calls_of_partially_used_classes':
                500 if q else 6500,
            'thread_overlapping_calls': 2000 if q else 26666,
            'registry_snapshots_compared': 150 if q else 1800,
            'battery_runs': 150 if q else 1800}


# ---------------------------------------------------------------------------
# one call = (spec, kind, doc_type, arg)   kind: load | dumps | dumps_json |
# dump (to a failing sink)

class _Boom(Exception):
    pass


class FailingSink:
    def __init__(self, k):
        self.k = k

    def write(self, s):
        self.k -= 1
        if self.k <= 0:
            raise _Boom('sink refuses')


def make_fn(m, kind, doc_type, opts=None):
    # opts['unregistered']: classes of the model this function is not given
    # (partial registration over the same class objects)
    order = None
    if opts and opts.get('unregistered'):
        order = [c['name'] for c in m.spec['classes']
                 if c.get('registered', True)
                 and c['name'] not in opts['unregistered']]
    if kind == 'load':
        return m.load_fn(doc_type, order=order)
    if kind == 'dumps':
        return m.dumps_fn(order=order)
    if kind == 'dumps_json':
        return m.dumps_json_fn(order=order)
    if kind == 'dump_json_sink':
        return m.dump_json_fn(order=order)
    raise ValueError(kind)


def decode_arg(m, kind, arg, foreign_models):
    """arg as stored -> python argument(s)."""
    if kind == 'load':
        return arg
    if isinstance(arg, dict) and '$foreign' in arg:
        fm = H.model_of(arg['$foreign'])
        return V.decode_value(fm, arg['value'])
    return V.decode_value(m, arg['value'])


def perform(fn, kind, pyarg, opts):
    try:
        if kind == 'load':
            return H.outcome_digest('ok', fn(pyarg))
        if kind == 'dumps':
            return ['ok', fn(pyarg)]
        if kind == 'dumps_json':
            return ['ok', fn(pyarg, indent=opts.get('indent'),
                             ensure_ascii=opts.get('ensure_ascii', True))]
        if kind == 'dump_json_sink':
            sink = FailingSink(opts['k']) if opts.get('k') else io.StringIO()
            fn(pyarg, sink, indent=opts.get('indent'))
            return ['ok', sink.getvalue() if not opts.get('k') else None]
    except RecursionError as e:
        return ['err', 'RecursionError']
    except Exception as e:       # noqa
        if kind == 'load':
            d = H.outcome_digest('err', e)
            if isinstance(e, yatiml.RecognitionError):
                # where the error points and which keys it names, in the
                # order it names them: a function of the call alone (type
                # descriptions are left out: ambiguity messages list classes
                # in the order of a set)
                msg = str(e)
                d = d + [sorted(set(_POS.findall(msg))),
                         [] if 'Could not determine which' in msg
                         else _QUOTED.findall(msg)[:40]]
            return d
        return ['err', type(e).__name__]
    raise ValueError(kind)


import re as _re
_POS = _re.compile(r'line (\d+), column (\d+)')
_QUOTED = _re.compile(r'"([^"\n]{0,60})"')


# ---------------------------------------------------------------------------
# baseline server (fork per call)

def _send(fd, obj):
    data = pickle.dumps(obj)
    os.write(fd, struct.pack('<I', len(data)) + data)


def _recv(fd):
    head = b''
    while len(head) < 4:
        chunk = os.read(fd, 4 - len(head))
        if not chunk:
            return None
        head += chunk
    n = struct.unpack('<I', head)[0]
    data = b''
    while len(data) < n:
        chunk = os.read(fd, n - len(data))
        if not chunk:
            return None
        data += chunk
    return pickle.loads(data)


def _baseline_one(req):
    spec, kind, doc_type, arg, opts = req
    m = H.model_of(spec)
    fn = make_fn(m, kind, doc_type, opts)
    pyarg = decode_arg(m, kind, arg, None)
    return perform(fn, kind, pyarg, opts)


def _server(rfd, wfd):
    while True:
        req = _recv(rfd)
        if req is None:
            os._exit(0)
        r, w = os.pipe()
        pid = os.fork()
        if pid == 0:
            try:
                os.close(r)
                try:
                    res = _baseline_one(req)
                except BaseException as e:      # harness trouble
                    res = ['harness-error', '%s: %s' % (type(e).__name__, e)]
                _send(w, res)
            finally:
                os._exit(0)
        os.close(w)
        res = _recv(r)
        os.close(r)
        os.waitpid(pid, 0)
        _send(wfd, res if res is not None else ['harness-error', 'no reply'])


class Baseline:
    def __init__(self):
        self.cache = {}
        p2c_r, p2c_w = os.pipe()
        c2p_r, c2p_w = os.pipe()
        pid = os.fork()
        if pid == 0:
            os.close(p2c_w)
            os.close(c2p_r)
            try:
                _server(p2c_r, c2p_w)
            finally:
                os._exit(0)
        os.close(p2c_r)
        os.close(c2p_w)
        self.pid = pid
        self.w = p2c_w
        self.r = c2p_r
        self.lock = threading.Lock()
        self.calls = 0

    def get(self, key, req):
        with self.lock:
            if key in self.cache:
                return self.cache[key]
            _send(self.w, req)
            res = _recv(self.r)
            self.calls += 1
            self.cache[key] = res
            return res

    def close(self):
        try:
            os.close(self.w)
            os.close(self.r)
            os.waitpid(self.pid, 0)
        except OSError:
            pass


# ---------------------------------------------------------------------------
# registry monitor

STOCK = ['BaseLoader', 'SafeLoader', 'FullLoader', 'UnsafeLoader', 'Loader',
         'BaseDumper', 'SafeDumper', 'Dumper']


def _data_repr(v, depth=0):
    """Content of a class-level data attribute (None for functions,
    descriptors and the like)."""
    import re as _re
    if isinstance(v, (str, bytes, int, float, bool, type(None))):
        return repr(v)
    if isinstance(v, _re.Pattern):
        return 're:%s:%d' % (v.pattern, v.flags)
    if depth > 3:
        return None
    if isinstance(v, dict):
        items = [(repr(k), _data_repr(x, depth + 1)) for k, x in v.items()]
        return 'dict:' + repr(sorted((k, x if x is not None else '?')
                                     for k, x in items))
    if isinstance(v, (list, tuple)):
        return '%s:%r' % (type(v).__name__, [
            _data_repr(x, depth + 1) or '?' for x in v])
    if isinstance(v, (set, frozenset)):
        return 'set:%r' % sorted(_data_repr(x, depth + 1) or '?' for x in v)
    return None


def registry_snapshot():
    snap = {}
    classes = [(n, getattr(yaml, n)) for n in STOCK if hasattr(yaml, n)]
    classes.append(('resolver.Resolver', yaml.resolver.Resolver))
    classes.append(('resolver.BaseResolver', yaml.resolver.BaseResolver))
    classes.append(('constructor.SafeConstructor',
                    yaml.constructor.SafeConstructor))
    classes.append(('representer.SafeRepresenter',
                    yaml.representer.SafeRepresenter))
    classes.append(('yatiml.Loader', yatiml.loader.Loader))
    classes.append(('yatiml.Dumper', yatiml.dumper.Dumper))
    for name, cls in classes:
        for table in ('yaml_constructors', 'yaml_multi_constructors',
                      'yaml_representers', 'yaml_multi_representers'):
            t = getattr(cls, table, None)
            if t is not None:
                snap['%s.%s' % (name, table)] = (
                    id(t), tuple(sorted(
                        (repr(k), id(v)) for k, v in t.items())))
        t = getattr(cls, 'yaml_implicit_resolvers', None)
        if t is not None:
            snap['%s.yaml_implicit_resolvers' % name] = (
                id(t), tuple(sorted(
                    (repr(k), id(lst), tuple(
                        (tag, rx.pattern, rx.flags) for tag, rx in lst))
                    for k, lst in t.items())))
        t = getattr(cls, 'yaml_path_resolvers', None)
        if t is not None:
            snap['%s.yaml_path_resolvers' % name] = (id(t), len(t))
        # every class-level data attribute anywhere in the class's MRO
        # inside PyYAML / yatiml (bool_values, inf_value, timestamp_regexp,
        # DEFAULT_MAPPING_TAG, ESCAPE_REPLACEMENTS, ...): content, not
        # identity, so that an in-place update shows
        for k in cls.__mro__:
            if not (k.__module__ or '').startswith(('yaml', 'yatiml')):
                continue
            for attr, v in vars(k).items():
                if attr.startswith('__') or attr in (
                        'yaml_constructors', 'yaml_multi_constructors',
                        'yaml_representers', 'yaml_multi_representers',
                        'yaml_implicit_resolvers', 'yaml_path_resolvers',
                        '_abc_impl'):
                    continue
                d = _data_repr(v)
                if d is not None:
                    snap['%s.%s(%s)' % (name, attr, k.__name__)] = d
        for attr in ('_registered_classes', '_additional_classes',
                     'document_type', 'output_format'):
            if attr in vars(cls):
                v = vars(cls)[attr]
                snap['%s.%s' % (name, attr)] = repr(v) if not isinstance(
                    v, dict) else tuple(sorted(repr(x) for x in v.items()))
    return snap


def class_snapshot(models):
    snap = {}
    for i, m in enumerate(models):
        for name, cls in m.classes.items():
            snap['%d.%s' % (i, name)] = tuple(sorted(
                (k, id(v)) for k, v in vars(cls).items()
                if k not in ('__dict__', '__weakref__', '_abc_impl')))
            snap['%d.%s.bases' % (i, name)] = tuple(
                id(b) for b in cls.__bases__)
            # content of mutable class attributes (a dict such as
            # _yatiml_defaults can be changed without being replaced)
            snap['%d.%s.content' % (i, name)] = tuple(sorted(
                (k, repr(v)) for k, v in vars(cls).items()
                if isinstance(v, (dict, list, set))))
    return snap


BATTERY_LOAD = ['1e3', '1.5e3', '1_000.5', '1:30.5', '190:20:30', 'yes', 'no',
                'on', 'off', 'y', 'true', 'TRUE', 'tRue', '0o17', '017',
                '0x1F', '.inf', '-.INF', '.nan', '~', 'null', '2001-12-14',
                '2001-12-14 21:59:43.10 -5', '<<', '=', '1.', '.5', '+1',
                '1e', '[1e3, yes, 1:30]', '{a: 1e3, yes: no}', '"1e3"',
                '!!python/object:os.system {}', '!Foo {a: 1}', '!!set {a, b}',
                '!!omap [a: 1]', '!!binary aGk=', 'a: &x 1\nb: *x\n', '- 9e5',
                '9_000.5', 'k: 0.1e+2', '!!bool y', '!!bool n', '!!bool Yes',
                '!!bool maybe', '!!int 0o17', '!!int 1_0', '!!float 1e3',
                '!!float .Inf', '!!float 1_0.5', '!!null x', '!!str 1',
                '!!timestamp 2001-12-14', '!!int 1:30', '"\\x41\\u0041"',
                '[.NaN, -.inf, 0b11, 0x_1f, +12e03]', '? [1, 2]\n: x\n',
                '{a: 1, <<: {b: 2}}']
BATTERY_DUMP = ['1e3', '1.5e3', 'yes', 'on', 'true', '1_000', '1:30', '.inf',
                '~', 'null', '2001-12-14', '', ' ', 'a: b', 1, 1.5, 1e22,
                float('inf'), True, None, [1, 'yes'], {'a': '1e3'},
                collections.OrderedDict([('b', 1), ('a', 2)]), (1, 2),
                b'hi', {'on': 'off'}, '9e5', '0o17', 'y', 'n', 'Y', '=', '<<',
                '1_0', '0b11', '1e', float('nan'), -0.0, 10 ** 20, {1, 2},
                '\u00e9\u2028', 'a\nb\n', ' lead', 'trail ', '- x', '? x',
                '&a', '*a', '!t', '%d', '@', '`']


def battery():
    out = []
    for s in BATTERY_LOAD:
        try:
            out.append(('load', s, repr(yaml.safe_load(s))))
        except Exception as e:      # noqa
            out.append(('load', s, 'ERR ' + type(e).__name__))
    for v in BATTERY_DUMP:
        try:
            out.append(('dump', repr(v), yaml.safe_dump(v)))
        except Exception as e:      # noqa
            out.append(('dump', repr(v), 'ERR ' + type(e).__name__))
    import pathlib
    try:
        out.append(('dump', 'Path', yaml.safe_dump(pathlib.Path('a/b'))))
    except Exception as e:      # noqa
        out.append(('dump', 'Path', 'ERR ' + type(e).__name__))
    try:
        out.append(('dump-plain', 'x', yaml.dump({'a': [1, 'yes', '1e3']})))
    except Exception as e:      # noqa
        out.append(('dump-plain', 'x', 'ERR ' + type(e).__name__))
    return out


def diff_snap(a, b):
    out = []
    for k in sorted(set(a) | set(b)):
        if a.get(k) != b.get(k):
            out.append(k)
    return out


# ---------------------------------------------------------------------------
# pools

def build_pool(ctx, rng, n):
    """n class models sharing class names; each gets a unique extra class."""
    specs = []
    for _try in range(n):
        i = len(specs)      # the index this model gets (builds may fail)
        profile = 'unamb' if rng.random() < 0.7 else 'free'
        spec = G.gen_model(rng, profile)
        spec = H.clean_spec(spec)
        spec['classes'].append({
            'name': 'Only%d' % i, 'kind': 'plain',
            'params': [{'name': 'only%d_id' % i, 'type': 'int'}]})
        # a class written as a scalar whose recogniser takes any scalar (also
        # the null an empty document stands for)
        spec['classes'].append({'name': 'AnyScalar', 'kind': 'userstring',
                                'recognize': ['any']})
        # classes with a (shared, inherited) _yatiml_defaults dict whose
        # dumps remove defaulted attributes: user-class state that a dump
        # must not touch
        spec['classes'].append({
            'name': 'DBase', 'kind': 'plain', 'abc': True,
            'params': [{'name': 'dtag', 'type': 'str'},
                       {'name': 'dwidth', 'type': 'int', 'default': 1}],
            'defaults_override': {'zz_unused': 1}})
        for j, dflt in enumerate(rng.sample([1, 2, 3, 5], 2)):
            spec['classes'].append({
                'name': 'DKid%d' % j, 'kind': 'plain', 'bases': ['DBase'],
                'params': [{'name': 'dtag', 'type': 'str'},
                           {'name': 'dkid%d_id' % j, 'type': 'int'},
                           {'name': 'dwidth', 'type': 'int',
                            'default': dflt}],
                'sweeten': [['remove_defaults']], 'savorize': [['record']]})
        # a hooked base and a derived class, used through functions that
        # are given both and through functions that are given the derived
        # class only (the base's hooks then do not run): seasoning that is
        # not idempotent, so that one run too many or too few shows
        spec['classes'].append({
            'name': 'SBase', 'kind': 'plain',
            'params': [{'name': 'sb_n', 'type': 'int'}],
            'savorize': [['add_int', 'sb_n', 1]],
            'sweeten': [['add_int', 'sb_n', -1]]})
        spec['classes'].append({
            'name': 'SKid', 'kind': 'plain', 'bases': ['SBase'],
            'params': [{'name': 'sb_n', 'type': 'int'},
                       {'name': 'skid_id', 'type': 'int'}],
            'savorize': [['add_int', 'skid_id', 10]],
            'sweeten': [['add_int', 'skid_id', -10]]})
        # a class that holds objects of its own class: its constructor is
        # entered again before the outer object's checks have run
        # (through its base: every such mapping is read as the derived
        # class, whose own parameter is optional)
        spec['classes'].append({
            'name': 'NestB', 'kind': 'plain',
            'params': [{'name': 'nid', 'type': 'int'},
                       {'name': 'label', 'type': 'str', 'default': 'l'}]})
        spec['classes'].append({
            'name': 'Nest', 'kind': 'plain', 'bases': ['NestB'],
            'params': [{'name': 'nid', 'type': 'int'},
                       {'name': 'label', 'type': 'str', 'default': 'l'},
                       {'name': 'kids', 'type': ['opt', ['list', [
                           'cls', 'NestB']]], 'default': None}]})
        try:
            H.model_of(spec)
        except Exception:
            ctx.count('model_build_failed')
            continue
        specs.append(H.clean_spec(spec))
    return specs


def nest_items(rng, out):
    """Invalid documents of the self-nesting class whose defect sits in the
    outer mapping (reported after the inner objects were built), and the
    same keys in other orders (what an error says about one document must
    not depend on the documents seen before)."""
    n = rng.randint(1, 9)
    lines = [['nid: %d' % n, 'kids:\n- {nid: %d}\n- nid: %d\n  label: k' % (
        n + 1, n + 2), 'zz_unknown: 5', 'label: top'],
        ['kids: [{nid: %d, kids: [{nid: %d}]}]' % (n, n + 1), 'qq_other: 1',
         'label: x'],
        ['nid: %d' % n, 'kids: [{nid: 1}, {nid: 2, zz_inner: 3}]',
         'label: y']]
    for ls in lines:
        for _ in range(2):
            order = ls[:]
            rng.shuffle(order)
            out.append(('load', ['cls', 'Nest'], '\n'.join(order) + '\n', {},
                        'nested-invalid'))
        out.append(('load', ['list', ['cls', 'Nest']],
                    '- ' + '\n  '.join('\n'.join(ls).split('\n')) + '\n',
                    {}, 'nested-invalid'))
    out.append(('load', ['cls', 'Nest'],
                'nid: %d\nkids:\n- {nid: 2, kids: [{nid: 3}]}\n' % n, {},
                'nested-valid'))


def partial_items(ctx, rng, spec, m, out):
    """Calls through functions that were given only some of the model's
    classes (the same class objects as the other functions of the
    history)."""
    # the directed pair: with and without the hooked base
    for unreg in ((), ('SBase',)):
        o = {'unregistered': list(unreg)} if unreg else {}
        n = rng.randint(0, 50)
        out.append(('load', ['cls', 'SKid'],
                    'sb_n: %d\nskid_id: %d\n' % (n, n + 1), dict(o),
                    'hooked-doc'))
        out.append(('load', ['list', ['cls', 'SKid']],
                    '- {sb_n: %d, skid_id: 1}\n- {sb_n: 2, skid_id: %d}\n'
                    % (n, n), dict(o), 'hooked-doc'))
        try:
            kid = m.classes['SKid'](sb_n=n, skid_id=n + 2)
        except Exception:
            continue
        enc = {'value': V.encode_value([kid])}
        out.append(('dumps', None, enc, dict(o), 'hooked-value'))
        out.append(('dumps_json', None, enc,
                    dict(o, indent=rng.choice([None, 2])), 'hooked-value'))
    # random subsets of the generated classes: the valid documents and
    # values of the full model through a function that lacks 1-2 classes
    # (whatever that gives - an error mostly - must be what a fresh process
    # gives)
    dt = spec['doc_type']
    top = dt[1] if isinstance(dt, list) and dt[0] == 'cls' else None
    names = [c['name'] for c in spec['classes'] if c.get('registered', True)
             and c['name'] != top and c['name'] not in (
                 'SBase', 'SKid', 'AnyScalar', 'Nest', 'NestB')]
    if not names:
        return
    drop = sorted(rng.sample(names, min(len(names), rng.randint(1, 2))))
    for item in list(out):
        kind, doc_type, arg, opts, label = item
        if label in ('valid', 'value', 'defaults-value') and \
                rng.random() < 0.5:
            out.append((kind, doc_type, arg,
                        dict(opts, unregistered=drop), label))


def arg_pool(ctx, rng, specs, i):
    """Arguments for model i: list of (kind, doc_type, arg, opts, label)."""
    spec = specs[i]
    m = H.model_of(spec)
    out = []
    dt = spec['doc_type']
    g = V.Gen(m, rng, ('look', 'uni'), finite=False, share=0.0)
    vals = []
    for _ in range(3):
        try:
            vals.append(g.value(dt))
        except (V.NoValue, RecursionError):
            pass
    from vlib import workload as W
    kp = W.key_pool(spec)
    cn = W.class_names(spec)
    texts = []
    for v in vals:
        try:
            sp = D.spec_of(D.proj(m, v))
        except (ValueError, TypeError, RecursionError):
            continue
        try:
            t = D.render(sp, rng.choice(D.STYLES))
        except (ValueError, RecursionError):
            continue
        texts.append(t)
        out.append(('load', dt, t, {}, 'valid'))
        for _ in range(2):
            msp, what = D.mutate(sp, rng, cn, kp)
            try:
                out.append(('load', dt, D.render(msp, rng.choice(D.STYLES)),
                            {}, 'mutant'))
            except (ValueError, RecursionError):
                pass
        # the same document claiming to be a class of another model
        others = [j for j in range(len(specs)) if j != i]
        if others and sp[0] == 'map':
            j = rng.choice(others)
            tagged = sp[:2] + ['!Only%d' % j]
            try:
                out.append(('load', dt, D.render(tagged, 'block'), {},
                            'cross-tag'))
            except (ValueError, RecursionError):
                pass
    others = [j for j in range(len(specs)) if j != i]
    for j in others[:2]:
        out.append(('load', dt, '!Only%d {only%d_id: 1}\n' % (j, j), {},
                    'cross-tag'))
        out.append(('load', 'any', 'k: !Only%d {only%d_id: 1}\n' % (j, j), {},
                    'cross-tag'))
        # same-named class of the other model: its valid documents
        ospec = specs[j]
        om = H.model_of(ospec)
        og = V.Gen(om, rng, ('look',), finite=True)
        try:
            ov = og.value(ospec['doc_type'])
            out.append(('load', dt, D.render(D.spec_of(D.proj(om, ov)),
                                             'block'), {}, 'other-model-doc'))
            # and dumping an object of the other model's classes
            if all(c.get('registered', True) for c in spec['classes']):
                out.append(('dumps', None, {'$foreign': ospec,
                                            'value': V.encode_value(ov)},
                            {}, 'foreign-value'))
        except (V.NoValue, RecursionError, ValueError, TypeError):
            pass
        if all(c.get('registered', True) for c in spec['classes']):
            fo = om.classes['Only%d' % j](**{'only%d_id' % j: 3})
            out.append(('dumps', None, {'$foreign': ospec,
                                        'value': V.encode_value(fo)}, {},
                        'foreign-class'))
            out.append(('dumps_json', None, {'$foreign': ospec,
                                             'value': V.encode_value(fo)},
                        {'indent': 2}, 'foreign-class'))
    # empty documents: for the document type, for Optional[it], for a class
    # that takes any scalar, for Optional[str]
    for text in ('', '# nothing\n', '---\n', '~\n'):
        for t2 in (dt, ['opt', dt], ['cls', 'AnyScalar'], ['opt', 'str'],
                   ['opt', ['cls', 'Only%d' % i]]):
            if rng.random() < 0.5:
                out.append(('load', t2, text, {}, 'empty'))
    out.append(('load', dt, D.token_soup(rng), {}, 'soup'))
    out.append(('load', dt, rng.choice(D.CYCLES), {}, 'cycle'))
    if all(c.get('registered', True) for c in spec['classes']):
        g2 = V.Gen(m, rng, ('look', 'uni'), finite=True, share=0.0)
        for v in vals[:2]:
            out.append(('dumps', None, {'value': V.encode_value(v)}, {},
                        'value'))
        for _ in range(2):
            try:
                v = g2.value(dt)
            except (V.NoValue, RecursionError):
                continue
            try:
                data = D.proj(m, v)
            except (ValueError, TypeError, RecursionError):
                continue
            from checks.c07_models import json_compatible
            if json_compatible(data):
                out.append(('dumps_json', None, {'value': V.encode_value(v)},
                            {'indent': rng.choice([None, 0, 2, 4]),
                             'ensure_ascii': rng.random() < 0.5}, 'value'))
                out.append(('dump_json_sink', None,
                            {'value': V.encode_value(v)},
                            {'indent': rng.choice([None, 2]),
                             'k': rng.randint(1, 9)}, 'failing-sink'))
        for c in spec['classes']:
            if c.get('sweeten') == [['remove_defaults']] and c.get(
                    'registered', True) and not m.is_abstract(c['name']):
                for _ in range(2):
                    try:
                        dv = g2.instance(c['name'], 2)
                    except (V.NoValue, RecursionError):
                        continue
                    out.append(('dumps', None,
                                {'value': V.encode_value(dv)}, {},
                                'defaults-value'))
        # shared sub-object: JSON dump aborts half-way by design
        shared = [1, {'k': 'v'}]
        out.append(('dumps_json', None, {'value': V.encode_value(
            {'a': shared, 'b': [shared]})}, {'indent': rng.choice([None, 2])},
            'aliased'))
        out.append(('dumps_json', None, {'value': V.encode_value(
            [1, {'a': [2, 'x']}, []])}, {'indent': rng.choice([None, 0, 3])},
            'value'))
    partial_items(ctx, rng, spec, m, out)
    nest_items(rng, out)
    return out


# ---------------------------------------------------------------------------

class History:
    def __init__(self, ctx, baseline, specs, hist_id):
        self.ctx = ctx
        self.baseline = baseline
        self.specs = specs
        self.hist_id = hist_id
        self.fns = {}       # (i, kind, doc_type repr) -> [fn, ...]
        self.clock = itertools.count()
        self.last_failed = threading.local()

    def fn_for(self, rng, i, kind, doc_type, force_new=False, opts=None):
        unreg = tuple((opts or {}).get('unregistered') or ())
        key = (i, kind, repr(doc_type), unreg)
        lst = self.fns.setdefault(key, [])
        if force_new or not lst or (len(lst) < 3 and rng.random() < 0.3):
            m = H.model_of(self.specs[i])
            lst.append(make_fn(m, kind, doc_type, opts))
            self.ctx.count('functions_created')
            if unreg:
                self.ctx.count('partial_registration_functions_created')
        return rng.choice(lst)

    def call(self, rng, i, item, phase, fn=None):
        ctx = self.ctx
        kind, doc_type, arg, opts, label = item
        spec = self.specs[i]
        m = H.model_of(spec)
        if fn is None:
            fn = self.fn_for(rng, i, kind, doc_type, opts=opts)
        pyarg = decode_arg(m, kind, arg, None)
        t0 = next(self.clock)
        got = perform(fn, kind, pyarg, opts)
        t1 = next(self.clock)
        bkey = H.json.dumps([spec, kind, doc_type, arg, opts], sort_keys=True,
                            default=repr)
        want = self.baseline.get(bkey, (spec, kind, doc_type, arg, opts))
        ctx.count('calls_compared')
        ctx.count('calls_' + phase)
        if label == 'cross-tag':
            ctx.count('cross_model_tag_calls')
        if label in ('foreign-class', 'foreign-value'):
            ctx.count('foreign_class_dumps')
        if label in ('aliased', 'failing-sink'):
            ctx.count('aborted_json_dumps')
        if label.startswith('nested-'):
            ctx.count('self_nesting_class_calls')
        if opts.get('unregistered'):
            ctx.count('partial_registration_calls')
        elif label.startswith('hooked-'):
            ctx.count('full_registration_calls_of_partially_used_classes')
        if getattr(self.last_failed, 'v', False):
            ctx.count('calls_after_failed_call')
        self.last_failed.v = got[0] == 'err'
        if want and want[0] == 'harness-error':
            ctx.note('baseline harness error: %s' % want[1])
            ctx.count('baseline_harness_errors')
            return t0, t1
        case = {'specs': self.specs, 'i': i, 'item': [
            kind, doc_type, arg, opts, label], 'phase': phase}
        if got != want:
            ctx.violation(
                'C11 %s call-differs-from-fresh-process kind=%s arg=%s '
                '(%s vs %s)' % (phase, kind, label, short_d(got),
                                short_d(want)),
                '%s call of a %s function (argument kind %s) gave %s, the '
                'same single call in a fresh process gives %s' % (
                    phase, kind, label, short(got), short(want)), case)
        ctx.case([bkey, phase], True)
        return t0, t1


def short_d(d):
    if not d:
        return 'none'
    if d[0] == 'ok':
        return 'ok'
    return str(d[1])


def short(x, n=240):
    s = repr(x)
    return s if len(s) <= n else s[:n] + '...'


def run_history(ctx, baseline, rng, hist_id, yield_inject=False):
    n = rng.randint(3, 5)
    specs = build_pool(ctx, rng, n)
    if len(specs) < 2:
        return
    models = [H.model_of(s) for s in specs]
    reg0 = registry_snapshot()
    cls0 = class_snapshot(models)
    bat0 = battery()
    ctx.count('battery_runs')
    pools = [arg_pool(ctx, rng, specs, i) for i in range(len(specs))]
    h = History(ctx, baseline, specs, hist_id)
    # sequential phase
    steps = rng.randint(40, 120)
    for _ in range(steps):
        i = rng.randrange(len(specs))
        if not pools[i]:
            continue
        item = rng.choice(pools[i])
        if rng.random() < 0.15:
            h.fn_for(rng, i, item[0], item[1], force_new=True, opts=item[3])
        h.call(rng, i, item, 'sequential')
    # threaded phase: shared function objects
    nthreads = rng.randint(4, 8)
    per = rng.randint(10, 25)
    plans = []
    # in a third of the histories the threads concentrate on ONE model's
    # documents of the self-nesting class (valid and invalid ones): many
    # calls in flight inside the same constructors at the same time
    focus = None
    if rng.random() < 0.34:
        fi = rng.randrange(len(specs))
        fitems = [it for it in pools[fi] if it[4].startswith('nested-')]
        if fitems:
            focus = (fi, fitems)
            ctx.count('histories_with_focused_thread_phase')
    for t in range(nthreads):
        plan = []
        for _ in range(per):
            i = rng.randrange(len(specs))
            if focus and rng.random() < 0.85:
                i = focus[0]
                item = rng.choice(focus[1])
                plan.append((i, item, h.fn_for(rng, i, item[0], item[1],
                                               opts=item[3])))
                continue
            if pools[i]:
                item = rng.choice(pools[i])
                # resolve the function up front: creation is not the racy part
                plan.append((i, item, h.fn_for(rng, i, item[0], item[1],
                                               opts=item[3])))
        plans.append((plan, __import__('random').Random(rng.getrandbits(32))))
    spans = [[] for _ in range(nthreads)]
    errors = []
    start = threading.Barrier(nthreads)

    def worker(k):
        plan, r = plans[k]
        try:
            start.wait()
            for i, item, fn in plan:
                spans[k].append(h.call(r, i, item, 'threaded', fn=fn))
        except BaseException as e:       # harness trouble
            import traceback
            errors.append(traceback.format_exc())

    old = sys.getswitchinterval()
    sys.setswitchinterval(1e-6)
    inj = YieldInjector() if yield_inject else None
    if inj:
        inj.start()
    try:
        ths = [threading.Thread(target=worker, args=(k,))
               for k in range(nthreads)]
        for t in ths:
            t.start()
        for t in ths:
            t.join()
    finally:
        if inj:
            inj.stop()
            ctx.count('yields_injected', inj.count)
        sys.setswitchinterval(old)
    for e in errors:
        raise RuntimeError('worker thread failed:\n' + e)
    # evidence of interleaving: calls of different threads that overlapped
    allspans = [(a, b, k) for k, lst in enumerate(spans) for a, b in lst]
    allspans.sort()
    overlap = 0
    active = []
    for a, b, k in allspans:
        active = [(b2, k2) for b2, k2 in active if b2 > a]
        if any(k2 != k for _, k2 in active):
            overlap += 1
        active.append((b, k))
    ctx.count('thread_overlapping_calls', overlap)
    # a few more sequential calls after the storm
    for _ in range(10):
        i = rng.randrange(len(specs))
        if pools[i]:
            h.call(rng, i, rng.choice(pools[i]), 'sequential')
    # registries
    reg1 = registry_snapshot()
    cls1 = class_snapshot(models)
    bat1 = battery()
    ctx.count('registry_snapshots_compared')
    case = {'specs': specs, 'registry': True, 'seed': hist_id}
    d = diff_snap(reg0, reg1)
    if d:
        ctx.violation(
            'C11 registry-changed %s' % ','.join(
                sorted({x.split('.', 1)[-1].split('.')[-1] for x in d})),
            'PyYAML/yatiml class-level tables changed during the history: %s'
            % d[:8], case)
    d = diff_snap(cls0, cls1)
    if d:
        ctx.violation('C11 user-class-changed',
                      'vars() of user classes changed: %s' % d[:8], case)
    if bat0 != bat1:
        ch = [(a, b) for a, b in zip(bat0, bat1) if a != b]
        ctx.violation(
            'C11 yaml-safe-behaviour-changed %s' % ch[0][0][0],
            'yaml.safe_load/safe_dump battery changed: %s' % short(ch[:4]),
            case)
    ctx.count('histories')
    if len(ctx.samples) < 2:
        ctx.sample({'models': len(specs), 'sequential_steps': steps,
                    'threads': nthreads, 'calls_per_thread': per,
                    'overlapping_calls': overlap,
                    'functions': sum(len(v) for v in h.fns.values())},
                   'history')


class YieldInjector:
    """sleep(0) at random statement starts inside yatiml/* and yaml/*."""
    TOOL = 4

    def __init__(self):
        self.count = 0
        self.active = False

    def start(self):
        mon = getattr(sys, 'monitoring', None)
        if mon is None:
            return
        try:
            mon.use_tool_id(self.TOOL, 'verif-yield')
        except ValueError:
            return
        import random
        r = random.Random(12345)
        inj = self
        DISABLE = mon.DISABLE
        seps = (os.sep + 'yatiml' + os.sep, os.sep + 'yaml' + os.sep)

        def on_line(code, line):
            fn = code.co_filename
            if seps[0] not in fn and seps[1] not in fn:
                return DISABLE
            if r.random() < 0.02:
                inj.count += 1
                time.sleep(0)

        mon.register_callback(self.TOOL, mon.events.LINE, on_line)
        mon.set_events(self.TOOL, mon.events.LINE)
        self.active = True

    def stop(self):
        if self.active:
            mon = sys.monitoring
            mon.set_events(self.TOOL, 0)
            mon.register_callback(self.TOOL, mon.events.LINE, None)
            mon.free_tool_id(self.TOOL)
            self.active = False


def shard(ctx):
    baseline = Baseline()       # forked before any yatiml function exists
    try:
        n = ctx.budget(220, 2600)
        for k in range(n):
            inject = ctx.tier == 'thorough' and k % 4 == 0
            run_history(ctx, baseline, ctx.rng, [ctx.seed, ctx.shard, k],
                        yield_inject=inject)
        ctx.count('baseline_calls', baseline.calls)
    finally:
        baseline.close()


def replay(ctx, case):
    """Re-runs the recorded call in this (fresh) process next to its
    fresh-process baseline; for history-dependent violations the whole
    history is regenerated from its seed."""
    baseline = Baseline()
    try:
        if case.get('registry'):
            import random
            seed, shard_i, k = case['seed']
            rng = random.Random(seed * 1000003 + shard_i)
            for j in range(k + 1):
                run_history(ctx, baseline, rng, [seed, shard_i, j])
            return
        import random
        h = History(ctx, baseline, case['specs'], 0)
        rng = random.Random(0)
        item = tuple(case['item'])
        # replay as a small history: every pool call once, then the call
        for i in range(len(case['specs'])):
            for it in arg_pool(ctx, rng, case['specs'], i)[:12]:
                h.call(rng, i, it, 'sequential')
        h.call(rng, case['i'], item, 'sequential')
    finally:
        baseline.close()
