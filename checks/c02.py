"""C02 - load accepts exactly what the documented pipeline admits and builds
that value.

Monitor: every (class model, document) case is run through the reference
semantics (vlib/refsem.py: an executable statement of the documented rules on
independently composed nodes, three-valued) and through the real load
function; accept/reject and the constructed value (structural digest: classes,
bound constructor arguments incl. defaults, extras as ordered plain data,
mapping order) must agree.  Cases the reference calls Unspecified are counted,
not judged.
"""
import itertools

import yaml

import yatiml
from vlib import docs as D
from vlib import harness as H
from vlib import nodes as N
from vlib import refsem as R
from vlib import scalars as S
from vlib import values as V
from vlib import workload as W

PROPERTY = 'C02'
RULE = ('cases = (class model, document). (a) random unambiguous and free '
        'models (auto-recognised classes, hierarchies, enums, string-likes, '
        'defaults, _yatiml_extra, dashed keys, declarative seasoning from the '
        'menu, parsed classes, recursive hierarchies) x valid documents in '
        'six styles, 1-2 site mutants (scalar kind, dropped/added/misspelt/'
        'dashed keys, injected tags, collection/scalar swaps, non-string and '
        'complex keys), empty documents; (b) hand-shaped small models x every '
        'node tree up to N nodes (exhaustive up to 3 quick / 4 thorough, one '
        'in four of the next size) over a small scalar alphabet and the '
        'model\'s key names, dashed variants and one foreign key. Non-trivial: the reference gave Accept or Reject '
        'and the real outcome was compared; distinct by (model, text).')
ASSUMPTIONS = [
    'the reference semantics (vlib/refsem.py) is my reading of the '
    'documentation and of the statement; every disagreement on the unchanged '
    'tree was triaged by hand (DESIGN.md section 5)',
    'aliases stand for a copy of the anchored node (expanded by the '
    'reference before anything else; self-referential ones are rejected)',
    'not judged (Unspecified): duplicate and merge keys, explicit '
    'class tags on enum/string-like scalars, core tags that disagree with '
    'the node kind, !!binary/!!set/... scalars below Any, Any inside a '
    'Union, annotations naming unregistered classes, sabotaging savorizers',
    'a rejection may surface as RecognitionError or, for documents that are '
    'malformed at the YAML level or whose plain data PyYAML cannot build, as '
    'yaml.YAMLError',
]


def EXHAUSTIVE(tier):
    return True


def requirements(tier):
    q = tier == 'quick'
    req = {'cases': 100000 if q else 1300000,
           'ref_accept': 15000 if q else 200000,
           'ref_reject': 70000 if q else 900000,
           'agree_accept': 15000 if q else 200000,
           'agree_reject': 70000 if q else 900000,
           'small_documents': 40000 if q else 600000,
           'class_values_compared': 12000 if q else 150000}
    for r in RULES_REQUIRED:
        req['rule ' + r] = 1
    return req


RULES_REQUIRED = [
    'auto-recognised', 'dashed-key-recognised', 'custom-recognizer',
    'class-ambiguous', 'tag-conflict', 'tag-unknown', 'tag-agrees',
    'any-position', 'extra-attribute', 'unknown-attribute-rejected',
    'missing-required-rejected', 'default-applied', 'enum', 'string-like',
    'enum-unknown-member', 'enum-from-bool-word', 'savorize', 'list', 'dict',
    'path', 'non-string-key-rejected', 'ambiguous-rejected',
    'foreign-tag-ignored-on-scalar', 'tag-ignored-on-collection',
    'sequence-with-other-tag-rejected', 'mapping-with-other-tag-rejected',
    'constructor-raised', 'empty-document', 'class-constructed']


def judge(ctx, spec, text, origin, doc_type=None):
    m = H.model_of(spec)
    case = {'spec': spec, 'text': text, 'doc_type': doc_type}
    try:
        load = m.load_fn(doc_type)
    except Exception:
        ctx.count('load_function_creation_failed')
        return
    import collections
    rules = collections.Counter()
    if doc_type is None:
        H.prior_partial_use(ctx, m, text, 4)
    m.reset()
    ref = R.ref_load(m, text, doc_type, rules)
    m.reset()
    kind, x = H.run_load(load, text)
    ctx.count('cases')
    for k, n in rules.items():
        ctx.count('rule ' + k, n)
    if ref.kind == 'unspecified':
        ctx.count('unspecified')
        ctx.count('unspecified: ' + ref.reason.split(' tagged ')[0][:40])
        ctx.case([spec, text, doc_type], False)
        return
    feat = H.main_feature(text)
    mfeat = ','.join(H.model_features(spec)) or 'plain-model'
    if ref.kind == 'accept':
        ctx.count('ref_accept')
        if kind == 'ok':
            if V.vsame(x, ref.value):
                ctx.count('agree_accept')
                if V.has_instance(x):
                    ctx.count('class_values_compared')
                rd = V.rdigest(ref.value)
                if rd:
                    # constructors that convert an omitted parameter: what
                    # they were handed must be the Python default too
                    ctx.count('received_arguments_compared')
                    if V.rdigest(x) != rd:
                        ctx.violation(
                            'C02 value-differs constructor-received-other-'
                            'than-the-python-default feature=%s' % feat,
                            'constructors were handed %s, the documented '
                            'rules hand them %s (document %r, model '
                            'features %s)' % (
                                short(V.rdigest(x)), short(rd), text[:300],
                                mfeat), case)
            else:
                ctx.violation(
                    'C02 value-differs %s feature=%s' % (
                        diff_kind(V.vdigest(x), V.vdigest(ref.value)), feat),
                    'load returned %s, the documented rules build %s '
                    '(document %r, type %r, model features %s)' % (
                        short(V.vdigest(x)), short(V.vdigest(ref.value)),
                        text[:300], doc_type or spec['doc_type'], mfeat),
                    case)
        else:
            ctx.violation(
                'C02 rejected-admissible %s %s feature=%s' % (
                    type(x).__name__, msg_kind(x), feat),
                'the documented rules admit document %r as %s, load raised '
                '%s: %s (type %r, model features %s)' % (
                    text[:300], short(V.vdigest(ref.value)),
                    type(x).__name__, str(x)[-300:],
                    doc_type or spec['doc_type'], mfeat), case)
    else:
        ctx.count('ref_reject')
        if kind == 'ok':
            ctx.violation(
                'C02 accepted-inadmissible reason=%s feature=%s' % (
                    reason_kind(ref.reason), feat),
                'the documented rules reject document %r (%s), load returned '
                '%s (type %r, model features %s)' % (
                    text[:300], ref.reason, short(V.vdigest(x)),
                    doc_type or spec['doc_type'], mfeat), case)
        elif isinstance(x, yatiml.RecognitionError) or \
                isinstance(x, yaml.YAMLError):
            ctx.count('agree_reject')
            if isinstance(x, yaml.YAMLError):
                ctx.count('agree_reject_yaml_error')
                if not ref.yaml_level:
                    ctx.count('agree_reject_yaml_error_for_type_reject')
        else:
            ctx.violation(
                'C02 rejected-with-other-exception %s %s feature=%s' % (
                    type(x).__name__, H.exc_site(x), feat),
                'document %r is rejected with %s: %s' % (
                    text[:300], type(x).__name__, str(x)[:200]), case)
    ctx.case([spec, text, doc_type], True)
    if len(ctx.samples) < 4 and ref.kind == 'accept' and kind == 'ok' and \
            V.has_instance(x):
        ctx.sample({'origin': origin, 'doc_type': doc_type or spec['doc_type'],
                    'text': text[:300], 'value': short(V.vdigest(x), 300),
                    'rules': sorted(rules)}, origin)


def msg_kind(exc):
    from checks.c17 import message_kind
    return message_kind(str(exc))


def reason_kind(reason):
    import re
    r = re.sub(r"'[^']*'", "'..'", reason)
    r = re.sub(r'tagged \S+', 'tagged T', r)
    r = re.sub(r'\b[CELSUPK]\d+(Clone)?\b', 'K', r)
    r = re.sub(r'\(.*', '', r)
    r = re.sub(r'\[.*', '', r)
    return r[:50].strip().replace(' ', '-')


def diff_kind(a, b, depth=0):
    """Mechanism-level description of the first difference of two digests."""
    if type(a) is not type(b):
        return 'shape'
    if isinstance(a, list):
        if a and b and isinstance(a[0], str) and isinstance(b[0], str) and \
                a[0] != b[0]:
            return 'kind-%s-vs-%s' % (a[0], b[0])
        if a[:1] == ['inst'] and b[:1] == ['inst']:
            if a[1] != b[1]:
                return 'class-differs'
            ka = [k for k, _ in a[2]]
            kb = [k for k, _ in b[2]]
            if ka != kb:
                return 'argument-names'
            for (k, x), (_, y) in zip(a[2], b[2]):
                if x != y:
                    inner = diff_kind(x, y, depth + 1)
                    if k == '_yatiml_extra':
                        return 'extra-' + inner
                    if inner.startswith('argument-') or inner.startswith(
                            'extra-'):
                        return inner
                    return 'argument-' + inner
        if len(a) != len(b):
            return 'length'
        for x, y in zip(a, b):
            if x != y:
                return diff_kind(x, y, depth + 1)
        return 'equal'
    return 'scalar'


def short(x, n=240):
    s = repr(x)
    return s if len(s) <= n else s[:n] + '...'


# ---------------------------------------------------------------------------
# (b) hand-shaped small models x all small documents

def small_models():
    E = {'name': 'E1', 'kind': 'enum', 'members': ['x', 'true', 'y']}
    U = {'name': 'U1', 'kind': 'userstring', 'constraint': 'nonempty'}

    def cls(name, params, **kw):
        d = {'name': name, 'kind': 'plain', 'params': params}
        d.update(kw)
        return d

    def p(name, t, *default):
        d = {'name': name, 'type': t}
        if default:
            d['default'] = default[0]
        return d
    A = cls('A', [p('a', 'int')])
    Aopt = cls('A', [p('a', 'int'), p('b_c', 'str', 'd')])
    Aex = cls('A', [p('a', 'int')], extra=True)
    B = cls('B', [p('a', 'int'), p('b', 'str')], bases=['A'])
    Bx = cls('B', [p('a', 'int'), p('x', ['cls', 'E1'])], bases=['A'])
    Adash = cls('A', [p('a_b', 'int'), p('c', 'bool', False)],
                savorize=[['dashes_to_unders']],
                sweeten=[['unders_to_dashes']])
    Aund = cls('A', [p('a_b', 'int'), p('c', 'bool', False)])
    K1 = cls('K1', [p('v', 'int')], recognize=['attr_value', 'kind', 'K1'],
             savorize=[['remove_attr', 'kind']])
    K2 = cls('K2', [p('v', 'int')], recognize=['attr_value', 'kind', 'K2'],
             savorize=[['remove_attr', 'kind']])
    Abs = cls('Abs', [p('a', 'int')], abc=True)
    Sub1 = cls('Sub1', [p('a', 'int')], bases=['Abs'])
    Sub2 = cls('Sub2', [p('a', 'int'), p('b', 'str', 'q')], bases=['Abs'])
    S = {'name': 'S1', 'kind': 'str'}
    L = {'name': 'L1', 'kind': 'stringlike'}
    Eup = {'name': 'E2', 'kind': 'enum', 'members': ['RED', 'NO', 'ON'],
           'savorize': [['enum_upper']], 'sweeten': [['enum_lower']]}
    Ese = {'name': 'E3', 'kind': 'enum', 'members': ['x', 'y'],
           'str_mixin': True}
    Aunt = cls('A', [p('a', 'untyped'), p('b', 'any', None)])
    Adef = cls('A', [p('a', 'int', 7), p('b', ['opt', 'str'], None)])
    Aexd = cls('A', [p('a_b', 'int')], extra=True,
               savorize=[['dashes_to_unders']],
               sweeten=[['unders_to_dashes']])
    Aw = cls('A', [p('a', 'int'), p('b', 'str')], word_attr='a',
             recognize=['all', ['attr', 'a', ['union', 'int', 'str']],
                        ['attr', 'b', None]],
             savorize=[['word_to_int', 'a']], sweeten=[['int_to_word', 'a']])
    P = cls('P', [p('x', 'int'), p('y', ['cls', 'E1'])], parsed=True,
            recognize=['scalar', ['str']],
            savorize=[['scalar_to_mapping_typed',
                       [['x', 'int'], ['y', 'enum']], '|']],
            sweeten=[['mapping_to_scalar', ['x', 'y'], '|']])
    I = cls('I', [p('k', 'str'), p('v', 'int')], roster_item=True)
    Oseq = cls('O', [p('o', 'int'), p('items', ['list', ['cls', 'I']])],
               roster=True,
               recognize=['all', ['attr', 'o', None], ['attr', 'items', None]],
               savorize=[['map_to_seq', 'items', 'k', 'v']],
               sweeten=[['seq_to_map', 'items', 'k', 'v']])
    Oidx = cls('O', [p('o', 'int'),
                     p('items', ['dict', 'str', ['cls', 'I']])], roster=True,
               recognize=['all', ['attr', 'o', None], ['attr', 'items', None]],
               savorize=[['map_to_index', 'items', 'k', None]],
               sweeten=[['index_to_map', 'items', 'k', None]])
    R = cls('R', [p('n', 'int')])
    Rk = cls('Rk', [p('n', 'int'), p('kids', ['list', ['cls', 'R']])],
             bases=['R'])
    Cinit = cls('A', [p('a', 'int')],
                init_raises=['if_param_eq', 'a', 1, 'ValueError'])
    M1 = cls('M1', [p('a', 'int')])
    M2 = cls('M2', [p('b', 'str', 'q')])
    M12 = cls('M12', [p('a', 'int'), p('b', 'str', 'q')],
              bases=['M1', 'M2'])
    # _yatiml_defaults: the constructor turns an omitted (None) parameter
    # into the override; what it is handed is the Python default all the same
    Aovr = cls('A', [p('a', 'int'), p('b', ['opt', 'int'], None),
                     p('c', ['opt', 'str'], None)],
               defaults_override={'b': 99, 'c': 'other'},
               sweeten=[['remove_defaults']], savorize=[['record']])
    Aovx = cls('A', [p('a', 'int'), p('b', ['opt', 'int'], None)],
               defaults_override={'b': 1}, extra=True)
    out = [
        ([Aovr], ['cls', 'A']),
        ([Aovr], ['list', ['cls', 'A']]),
        ([Aovx], ['cls', 'A']),
        ([Aunt], ['cls', 'A']),
        ([Adef], ['cls', 'A']),
        ([Aexd], ['cls', 'A']),
        ([Aw], ['cls', 'A']),
        ([E, P], ['cls', 'P']),
        ([E, P], ['list', ['union', ['cls', 'P'], 'int']]),
        ([I, Oseq], ['cls', 'O']),
        ([I, Oidx], ['cls', 'O']),
        ([R, Rk], ['cls', 'R']),
        ([Cinit], ['list', ['cls', 'A']]),
        ([M1, M2, M12], ['cls', 'M1']),
        ([M1, M2, M12], ['union', ['cls', 'M2'], 'int']),
        ([Eup], ['dict', 'str', ['cls', 'E2']]),
        ([Ese], ['list', ['cls', 'E3']]),
        ([S, L], ['union', ['cls', 'S1'], ['cls', 'L1']]),
        ([L], ['dict', ['cls', 'L1'], ['list', 'int']]),
        ([S], ['union', ['cls', 'S1'], 'int', 'path']),
        ([], ['list', 'date']),
        ([], ['dict', 'str', 'any']),
        ([A], ['union', ['cls', 'A'], ['dict', 'str', 'int']]),
        ([A], ['cls', 'A']),
        ([Aopt], ['cls', 'A']),
        ([Aex], ['cls', 'A']),
        ([A, B], ['cls', 'A']),
        ([A, B], ['union', ['cls', 'B'], 'int']),
        ([E, A, Bx], ['cls', 'A']),
        ([Adash], ['cls', 'A']),
        ([Aund], ['cls', 'A']),
        ([K1, K2], ['union', ['cls', 'K1'], ['cls', 'K2']]),
        ([Abs, Sub1, Sub2], ['cls', 'Abs']),
        ([E], ['list', ['cls', 'E1']]),
        ([E], ['union', 'bool', ['cls', 'E1']]),
        ([U], ['dict', ['cls', 'U1'], 'int']),
        ([], ['dict', 'str', ['opt', 'int']]),
        ([], ['list', ['union', 'int', 'str', 'buf', 'bool']]),
        ([A], ['opt', ['cls', 'A']]),
        ([A], ['dict', 'str', ['cls', 'A']]),
        ([Aex], 'any'),
        ([A], ['list', ['union', ['cls', 'A'], ['list', 'int']]]),
        ([], ['union', 'float', 'int', 'none', 'date', 'path']),
    ]
    return [{'classes': cs, 'doc_type': dt, 'profile': 'hand'}
            for cs, dt in out]


SCALAR_ALPHABET = [N.s_int(1), N.s_float('1.5'), N.s_str('x'),
                   N.s_bool('true'), N.s_null('~'), N.s_str('')]


def key_alphabet(spec):
    ks = []
    for c in spec['classes']:
        for prm in c.get('params', []):
            ks.append(prm['name'])
            if '_' in prm['name']:
                ks.append(prm['name'].replace('_', '-'))
        if c.get('recognize') and c['recognize'][0] == 'attr_value':
            ks.append(c['recognize'][1])
    ks.append('zz')
    return sorted(set(ks))[:6]


def small_docs(n, scalars, keys, tags, memo=None):
    """All node specs with exactly n nodes (keys are not counted)."""
    memo = memo if memo is not None else {}
    if n in memo:
        return memo[n]
    out = []
    if n == 1:
        out.extend(scalars)
        out.append(['seq', [], S.TAG_SEQ])
        out.append(['map', [], S.TAG_MAP])
    else:
        # sequence of k children whose sizes sum to n-1
        for parts in compositions(n - 1):
            if len(parts) > 3:
                continue
            pools = [small_docs(k, scalars, keys, tags, memo) for k in parts]
            for combo in itertools.product(*pools):
                out.append(['seq', list(combo), S.TAG_SEQ])
                if len(parts) <= 2:
                    for ks in itertools.permutations(keys, len(parts)):
                        if list(ks) != sorted(ks) and len(parts) == 2 and \
                                ks[0] > ks[1] and n > 3:
                            continue
                        out.append(['map', [[N.s_str(k), v] for k, v in zip(
                            ks, combo)], S.TAG_MAP])
    memo[n] = out
    return out


def compositions(n):
    if n == 0:
        yield ()
        return
    for first in range(1, n + 1):
        for rest in compositions(n - first):
            yield (first,) + rest


def value_scalars(spec):
    """Scalars that matter for the model: alphabet + discriminator words."""
    out = list(SCALAR_ALPHABET)
    for c in spec['classes']:
        if c.get('word_attr'):
            out.append(N.s_str('two'))
        if c.get('parsed'):
            out.append(N.s_str('3|x'))
            out.append(N.s_str('x|3'))
        if c.get('members') and c.get('savorize'):
            out.append(N.s_str('red'))
        if c.get('kind') == 'enum' and 'true' not in c['members']:
            out.append(N.s_str(c['members'][-1]))
        if c.get('kind') == 'enum':
            out.append(N.s_str(c['members'][0]))
        if c.get('recognize') and c['recognize'][0] == 'attr_value':
            out.append(N.s_str(c['recognize'][2]))
    return out


def shard(ctx):
    rng = ctx.rng
    # (a) random stream
    n_models = ctx.budget(7000, 90000)
    for i in range(n_models):
        profile = 'unamb' if rng.random() < 0.55 else 'free'
        st = W.Stream(ctx, profile, mutants=4, soup=0, cycles=0)
        spec, m = st.new_model()
        if spec is None:
            continue
        for text, meta in st.cases(spec, m, n_values=2):
            judge(ctx, spec, text, meta.get('origin'))
    # (b) small documents, exhaustive
    nmax = ctx.pick(4, 5)
    idx = 0
    for spec in small_models():
        keys = key_alphabet(spec)
        scalars = value_scalars(spec)
        tags = []
        memo = {}
        for n in range(1, nmax + 1):
            for nspec in small_docs(n, scalars, keys, tags, memo):
                idx += 1
                if n == nmax and (idx // ctx.nshards) % 4:
                    continue        # the largest size is sampled 1 in 4
                if not ctx.mine(idx):
                    continue
                try:
                    text = D.render(nspec, 'flow' if idx % 2 else 'block')
                except (ValueError, RecursionError):
                    continue
                ctx.count('small_documents')
                judge(ctx, spec, text, 'small')
        # explicit class tags on the root mapping
        for nspec in small_docs(min(nmax, 3), scalars, keys, tags, memo):
            if nspec[0] != 'map':
                continue
            for c in spec['classes'] + [{'name': 'Nope'}]:
                idx += 1
                if not ctx.mine(idx):
                    continue
                t = nspec[:2] + ['!' + c['name']]
                ctx.count('small_documents')
                judge(ctx, spec, D.render(t, 'block'), 'small-tagged')


def replay(ctx, case):
    judge(ctx, case['spec'], case['text'], 'replay', case.get('doc_type'))
