"""C16 - UnknownNode.require_* accept exactly the nodes they describe.

Monitor: a generated user class's _yatiml_recognize hook (the public client
boundary at which yatiml hands out UnknownNode objects during a real load)
calls the helper under test on the node yatiml composed, records
raise/no-raise, and snapshots the node's plain view before and after (purity).
The outcome is compared with a predicate written from the docstrings and
evaluated on that same composed node.
"""
import abc
import collections
import datetime
import enum
import pathlib
from typing import Any, Dict, List, Mapping, Optional, Sequence, Union

import yaml

import yatiml
from vlib import nodes as N
from vlib import scalars as S

PROPERTY = 'C16'
RULE = ('cases = (YAML document, helper call). Documents: generated mapping/'
        'sequence/scalar nodes rendered to text (values of every built-in '
        'scalar kind in many spellings incl. hex/octal/sexagesimal/inf/nan, '
        'explicit tags, nested collections, dashed and missing keys, non-str '
        'keys) and loaded with a real load function whose document class has '
        'a _yatiml_recognize hook that performs the helper call on the '
        'UnknownNode it is handed. Helper calls: require_scalar with every '
        'subset of up to two types, require_mapping, require_sequence, '
        'require_attribute untyped and typed over a pool of types of the '
        'type language (built-ins, List/Dict/Sequence/Mapping/Union/Optional/'
        'Any/Path/date/enum/registered classes), require_attribute_value(_not)'
        ' over a pool of scalar values. Non-trivial: the helper reached its '
        'deciding branch (node of the right kind); distinct by (document, '
        'call).')
ASSUMPTIONS = [
    'PyYAML scalar constructors define the value of a scalar node',
    'duplicate keys, a key that is not a str-tagged scalar but spells the '
    'attribute name, and scalar values PyYAML itself cannot construct are '
    'unspecified (counted, not judged)',
    'typed require_attribute: "recognisable as that type" is the documented '
    'recognition rule (built-ins by exact tag, lists/dicts element-wise with '
    'string keys, union = any member, enum = string scalar, class = see '
    'vlib/refsem.py when available)',
]


def requirements(tier):
    q = tier == 'quick'
    return {'helper_calls': 60000 if q else 700000,
            'hook_invocations': 60000 if q else 700000,
            'returned': 15000 if q else 200000,
            'raised_recognition': 15000 if q else 200000,
            'typed_attribute_calls': 15000 if q else 200000,
            'purity_checks': 60000 if q else 700000,
            'documents_judged_at_the_end_of_a_stream': 4000 if q else 60000}


class Color(enum.Enum):
    red = 1
    true = 2
    GREEN = 3


class Inner:
    def __init__(self, x: int, y: str = 'd') -> None:
        self.x = x
        self.y = y


class InnerX:
    """Two required attributes, one optional, extras with a default."""

    def __init__(self, x: int, z: int, y: str = 'd',
                 _yatiml_extra: Optional[collections.OrderedDict] = None
                 ) -> None:
        self.x = x
        self.z = z
        self.y = y
        self._yatiml_extra = _yatiml_extra


class Shape(abc.ABC):
    """Abstract root of a hierarchy."""
    def __init__(self, sx: int) -> None:
        self.sx = sx

    @abc.abstractmethod
    def area(self) -> int:
        pass


class Polygon(Shape):
    """Still abstract: inherits the unimplemented method, does not name
    abc.ABC among its own bases."""
    def __init__(self, sx: int, sp: int) -> None:
        super().__init__(sx)
        self.sp = sp


class Square(Polygon):
    def __init__(self, sx: int, sp: int, sq: int) -> None:
        super().__init__(sx, sp)
        self.sq = sq

    def area(self) -> int:
        return 1


class Base2:
    """Concrete base that keeps unknown attributes; Kid2 adds a required
    one."""
    def __init__(self, bx: int,
                 _yatiml_extra: Optional[collections.OrderedDict] = None
                 ) -> None:
        self.bx = bx


class Kid2(Base2):
    def __init__(self, bx: int, kr: float,
                 _yatiml_extra: Optional[collections.OrderedDict] = None
                 ) -> None:
        super().__init__(bx, _yatiml_extra)
        self.kr = kr


class Probe:
    """Document class; its recogniser performs the call under test."""
    CALL = None
    LOG = None

    def __init__(self) -> None:
        pass

    @classmethod
    def _yatiml_recognize(cls, node: yatiml.UnknownNode) -> None:
        Probe.LOG.append(('enter', N.view(node.yaml_node)))
        try:
            Probe.CALL(node)
        except BaseException as e:      # noqa: recorded and re-raised
            Probe.LOG.append(('exc', e, N.view(node.yaml_node)))
            raise
        Probe.LOG.append(('ok', None, N.view(node.yaml_node)))


TYPES = {
    'str': str, 'int': int, 'float': float, 'bool': bool, 'none': None,
    'nonetype': type(None), 'date': datetime.date, 'path': pathlib.Path,
    'any': Any, 'buf': yatiml.bool_union_fix,
    'list_int': List[int], 'list_any': List[Any], 'seq_str': Sequence[str],
    'list_list_int': List[List[int]],
    'dict_int': Dict[str, int], 'map_any': Mapping[str, Any],
    'dict_list': Dict[str, List[float]],
    'union_int_str': Union[int, str], 'opt_int': Optional[int],
    'union_list_dict': Union[List[int], Dict[str, int]],
    'union_bool_buf': Union[bool, yatiml.bool_union_fix, int],
    'color': Color, 'opt_color': Optional[Color],
    'union_bool_color': Union[bool, Color],
    'inner': Inner, 'list_inner': List[Inner],
    'innerx': InnerX, 'list_innerx': List[InnerX],
    'shape': Shape, 'polygon': Polygon, 'square': Square,
    'list_shape': List[Shape],
    'base2': Base2, 'kid2': Kid2, 'union_kid2_dict': Union[Kid2,
                                                           Dict[str, int]],
}
SCALAR_ARGS = [(), ('str',), ('int',), ('float',), ('bool',), ('none',),
               ('nonetype',), ('int', 'str'), ('float', 'int'),
               ('bool', 'none'), ('str', 'float')]
VALUES = [0, 1, 15, 17, 31, 90, -1, 1000, 1.5, 1.0, 0.0, float('inf'),
          float('-inf'), float('nan'), True, False, None, '', 'x', 'A', '1',
          'true', 'null', '1.5', '0x1F']
ATTRS = ['a', 'b_c', 'b-c', 'missing', '1', 'true', '']

TAG_OF = {str: S.TAG_STR, int: S.TAG_INT, float: S.TAG_FLOAT,
          bool: S.TAG_BOOL, None: S.TAG_NULL, type(None): S.TAG_NULL,
          datetime.date: S.TAG_TS, yatiml.bool_union_fix: S.TAG_BOOL}


class Unspecified(Exception):
    pass


def class_tag_rule(v, own_tags):
    """The tag of a mapping offered as a class: the plain map tag and the
    class's own tag are fine; a tag from the core schema that is no map is
    left open; any other tag (another class, an unknown local tag, a tag
    from another namespace written verbatim or through %TAG) means the node
    is something else: not recognisable."""
    if v[2] == S.TAG_MAP or v[2] in own_tags:
        return None
    if v[2].startswith('tag:yaml.org,2002:'):
        raise Unspecified('class mapping with another core tag')
    return False


def duplicate_rule(v, params):
    """A key that is a parameter of the class (or of a class of the same
    hierarchy) twice: the loader rejects such a mapping, so it is not
    recognisable; other keys twice are left open."""
    keys = [k[2] if k[0] == 's' else None for k, _ in v[1]]
    dup = {k for k in keys if keys.count(k) > 1}
    if dup & set(params):
        return False
    if len(set(map(str, keys))) != len(keys):
        raise Unspecified('duplicate keys')
    return None


def recognisable(v, t):
    """Documented recognition: does node view v match type t (>= 1 type)?"""
    import typing
    if t is Any:
        return True
    if t in TAG_OF:
        return v[0] == 's' and v[1] == TAG_OF[t]
    if t is pathlib.Path:
        return v[0] == 's' and v[1] == S.TAG_STR
    origin = getattr(t, '__origin__', None)
    if origin is typing.Union:
        return any(recognisable(v, a) for a in t.__args__)
    import collections.abc as cabc
    if origin in (list, cabc.Sequence, cabc.MutableSequence):
        if v[0] != 'seq':
            return False
        if v[2] != S.TAG_SEQ:
            raise Unspecified('sequence with a foreign tag')
        return all(recognisable(x, t.__args__[0]) for x in v[1])
    if origin in (dict, cabc.Mapping, cabc.MutableMapping):
        if v[0] != 'map':
            return False
        if v[2] != S.TAG_MAP:
            raise Unspecified('mapping with a foreign tag')
        return all(recognisable(k, t.__args__[0])
                   and recognisable(x, t.__args__[1]) for k, x in v[1])
    if isinstance(t, type) and issubclass(t, enum.Enum):
        if v[0] == 's' and v[1] == S.TAG_BOOL:
            # pinned by tests/test_classes.py::test_enum (Color3.FALSE):
            # a boolean-looking word may name an enum member
            return True
        return v[0] == 's' and v[1] == S.TAG_STR
    if t is Inner:
        if v[0] != 'map':
            return False
        r = class_tag_rule(v, ('!Inner',))
        if r is not None:
            return r
        r = duplicate_rule(v, ('x', 'y'))
        if r is not None:
            return r
        keys = [k[2] if k[0] == 's' else None for k, _ in v[1]]
        d = {k[2]: x for k, x in v[1] if k[0] == 's'}
        if 'x' not in d or not recognisable(d['x'], int):
            return False
        if 'y' in d and not recognisable(d['y'], str):
            return False
        return True
    if t in (Shape, Polygon, Square):
        # only Square is concrete: a mapping is a Shape or a Polygon iff it
        # is a Square
        if v[0] != 'map':
            return False
        r = class_tag_rule(v, ('!Square',))
        if r is not None:
            return r
        r = duplicate_rule(v, ('sx', 'sp', 'sq'))
        if r is not None:
            return r
        keys = [k[2] if k[0] == 's' else None for k, _ in v[1]]
        if None in keys:
            return False
        d = {k[2]: x for k, x in v[1]}
        return set(d) == {'sx', 'sp', 'sq'} and all(
            recognisable(x, int) for x in d.values())
    if t in (Base2, Kid2):
        if v[0] != 'map':
            return False
        r = class_tag_rule(v, ('!Kid2',) if t is Kid2 else ('!Base2',
                                                            '!Kid2'))
        if r is not None:
            return r
        r = duplicate_rule(v, ('bx', 'kr'))
        if r is not None:
            return r
        if any(k[0] != 's' or k[1] != S.TAG_STR for k, _ in v[1]):
            raise Unspecified('key that is no string in a class with extras')
        d = {k[2]: x for k, x in v[1]}
        if 'bx' not in d or not recognisable(d['bx'], int):
            return False
        is_kid = 'kr' in d and recognisable(d['kr'], float)
        if v[2] == '!Base2' and is_kid:
            raise Unspecified('tag naming the less derived class')
        if t is Kid2 or v[2] == '!Kid2':
            # (a tag naming Kid2 on something that is no Kid2: a conflict)
            return is_kid
        if 'kr' in d and not is_kid:
            # Base2 itself takes kr as an extra attribute
            return True
        return True
    if t is InnerX:
        if v[0] != 'map':
            return False
        r = class_tag_rule(v, ('!InnerX',))
        if r is not None:
            return r
        r = duplicate_rule(v, ('x', 'z', 'y'))
        if r is not None:
            return r
        keys = [k[2] if k[0] == 's' else None for k, _ in v[1]]
        d = {k[2]: x for k, x in v[1] if k[0] == 's'}
        for name, typ, req in (('x', int, True), ('z', int, True),
                               ('y', str, False)):
            if name not in d:
                if req:
                    return False
                continue
            if not recognisable(d[name], typ):
                return False
        return True
    raise Unspecified('type %r' % (t,))


def construct(env, v):
    try:
        return env.ctor.construct_object(N.mk(['s', v[1], v[2]]), deep=True)
    except Exception:
        raise Unspecified('PyYAML cannot construct %r' % (v,))


def find_attr(v, name):
    """-> value view; raises Unspecified for the grey cases."""
    if v[0] != 'map':
        return None
    hits = []
    for k, x in v[1]:
        if k[0] == 's' and k[2] == name:
            if k[1] != S.TAG_STR:
                raise Unspecified('key is not a str scalar')
            hits.append(x)
    if len(hits) > 1:
        raise Unspecified('duplicate key')
    return hits[0] if hits else None


def same_val(a, b):
    if type(a) is not type(b):
        return False
    return a == b


def predicate(env, v, call):
    """True = the helper must return, False = must raise RecognitionError."""
    name = call[0]
    if name == 'scalar':
        if v[0] != 's':
            return False
        if not call[1]:
            return True
        return any(v[1] == TAG_OF[TYPES[t]] for t in call[1])
    if name == 'mapping':
        return v[0] == 'map'
    if name == 'sequence':
        return v[0] == 'seq'
    if name == 'attribute':
        x = find_attr(v, call[1])
        if x is None:
            return False
        if call[2] is None:
            return True
        return recognisable(x, TYPES[call[2]])
    if name in ('value', 'value_not'):
        x = find_attr(v, call[1])
        if x is None:
            return False
        val = VALUES[call[2]]
        t = type(val) if val is not None else None
        is_typed_scalar = x[0] == 's' and x[1] == TAG_OF[t]
        equal = False
        if is_typed_scalar:
            equal = same_val(construct(env, x), val)
        if name == 'value':
            return is_typed_scalar and equal
        return not (is_typed_scalar and equal)
    raise ValueError(call)


def do_call(node, call):
    name = call[0]
    if name == 'scalar':
        node.require_scalar(*[TYPES[t] for t in call[1]])
    elif name == 'mapping':
        node.require_mapping()
    elif name == 'sequence':
        node.require_sequence()
    elif name == 'attribute':
        if call[2] is None:
            node.require_attribute(call[1])
        else:
            node.require_attribute(call[1], TYPES[call[2]])
    elif name == 'value':
        node.require_attribute_value(call[1], VALUES[call[2]])
    elif name == 'value_not':
        node.require_attribute_value_not(call[1], VALUES[call[2]])


class Env:
    def __init__(self):
        self.load = yatiml.load_function(Probe, Color, Inner, InnerX, Shape,
                                         Polygon, Square, Base2, Kid2)
        plain = yatiml.load_function()
        self.ctor = plain.loader('')
        self.loaded_ok = []     # short documents that parse (stream fillers)


_env = None


def get_env():
    global _env
    if _env is None:
        _env = Env()
    return _env


def run_case(ctx, env, text, call, stream=0):
    case = {'text': text, 'call': call}
    Probe.LOG = []
    Probe.CALL = staticmethod(lambda node: do_call(node, call))
    if stream:
        # the judged document is the last of a multi-document stream read
        # through the load function's loader class (yaml.load_all): one
        # loader object - one recogniser - sees all documents, the nodes of
        # the earlier ones are gone when the last is composed
        fill = [env.loaded_ok[ctx.rng.randrange(len(env.loaded_ok))]
                for _ in range(stream)]
        case['stream_before'] = fill
        joined = '---\n' + '---\n'.join(
            t if t.endswith('\n') else t + '\n' for t in fill + [text])
        ldr = env.load.loader(joined)
        try:
            try:
                for _ in fill:
                    if not ldr.check_data():
                        raise ValueError('stream ended early')
                    try:
                        ldr.get_data()
                    except yatiml.RecognitionError:
                        pass    # a document that is refused; the next one
                        # is composed from the stream all the same
            except Exception:   # a filler that does not stand in a stream
                ctx.count('stream_fillers_failed')
                ctx.case(case, False)
                return
            Probe.LOG = []
            try:
                if ldr.check_data():
                    ldr.get_data()
            except Exception:
                pass
        finally:
            ldr.dispose()
        ctx.count('documents_judged_at_the_end_of_a_stream')
    else:
        try:
            env.load(text)
            ok = True
        except yatiml.RecognitionError:
            ok = True
        except Exception:      # the load's own fate is irrelevant here
            ok = False
        if ok and len(env.loaded_ok) < 400 and len(text) < 200 and \
                not text.startswith(('%', '---')) and '\n...' not in text \
                and '\n---' not in text:
            env.loaded_ok.append(text)
    log = Probe.LOG
    if not log:
        ctx.count('document_never_reached_hook')
        ctx.case(case, False)
        return
    ctx.count('hook_invocations')
    ctx.count('helper_calls')
    before = log[0][1]
    if len(log) < 2:
        ctx.violation('C16 hook-aborted', 'no outcome recorded', case)
        return
    kind, exc, after = log[1]
    ctx.count('purity_checks')
    cname = call[0] + ('-typed' if call[0] == 'attribute' and call[2]
                       else '')
    if after != before:
        ctx.violation(
            'C16 purity %s modified-node' % cname,
            'require_%s changed the node: %r -> %r' % (
                call[0], before, after), case)
    if kind == 'exc' and not isinstance(exc, yatiml.RecognitionError):
        ctx.violation(
            'C16 %s raised %s' % (cname, type(exc).__name__),
            '%r raised %s: %s on %r' % (call, type(exc).__name__, exc,
                                         before), case)
        ctx.case(case, True)
        return
    try:
        want = predicate(env, before, call)
    except Unspecified as u:
        ctx.count('unspecified')
        ctx.count('unspecified: ' + str(u).split(' %')[0][:40])
        ctx.case(case, False)
        return
    if call[0] == 'attribute' and call[2]:
        ctx.count('typed_attribute_calls')
    got = kind == 'ok'
    ctx.count('returned' if got else 'raised_recognition')
    if got != want:
        ctx.violation(
            'C16 %s %s' % (cname, 'accepted-wrong-node' if got
                           else 'rejected-matching-node'),
            '%r %s on %r; documented condition is %s' % (
                call, 'returned' if got else 'raised %s' % exc, before,
                'met' if want else 'not met'), case)
    ctx.case(case, True)
    if len(ctx.samples) < 4:
        ctx.sample({'text': text, 'call': call,
                    'outcome': 'returned' if got else 'RecognitionError'},
                   call[0])


# ---------------------------------------------------------------------------
# documents

HAND_DOCS = [
    'a: 1\nb_c: x\n', 'a: 0x1F\n', 'a: 017\n', 'a: 1:30\n', 'a: .inf\n',
    'a: -.inf\n', 'a: .nan\n', 'a: 1_000\n', 'a: 0b1111\n', 'a: +1\n',
    'a: 1.0\n', 'a: 1.\n', 'a: 15\n', 'a: 31\n', 'a: 90\n', 'a: 1e3\n',
    'a: 1000.0\n', 'a: true\n', 'a: True\n', 'a: TRUE\n', 'a: false\n',
    'a: yes\n', 'a: ~\n', 'a:\n', 'a: null\n', 'a: ""\n', 'a: "1"\n',
    'a: x\n', 'a: A\n', 'a: "true"\n', "a: 'null'\n", 'a: 1.5\n',
    'a: "1.5"\n', 'a: "0x1F"\n', 'a: !!int "15"\n', 'a: !!str 1\n',
    'a: !!float 1\n', 'a: !!bool "true"\n', 'a: !!null ""\n',
    'a: 2001-12-14\n', 'a: 2001-12-14 21:59:43\n', 'a: red\n', 'a: GREEN\n',
    'a: [1, 2]\n', 'a: []\n', 'a: [x]\n', 'a: [1, x]\n', 'a: [[1], [2]]\n',
    'a: [[1], 2]\n', 'a: {k: 1}\n', 'a: {}\n', 'a: {k: x}\n',
    'a: {k: [1.5]}\n', 'a: {1: 1}\n', 'a: {x: 3}\n', 'a: {x: 3, y: s}\n',
    'a: {x: 3, y: 4}\n', 'a: {x: s}\n', 'a: {y: s}\n', 'a: [{x: 1}, {x: 2}]\n',
    'a: [{x: 1}, {x: s}]\n', 'a: !Inner {x: 3}\n', 'a: !Color red\n',
    'a: {x: 3, z: 4}\n', 'a: {x: 3, z: 4, y: s, w: 1}\n', 'a: {z: 4}\n',
    'a: [{x: 1, z: 2}, {x: 2}]\n', 'a: {x: 1, y: s}\n',
    'a: !Other {x: 3}\n', 'a: !!python/object:os.system {x: 3}\n',
    'b_c: 1\n', 'b-c: 1\n', 'b-c: 1\nb_c: 2\n', '1: x\n', 'true: x\n',
    '"1": x\n', '"true": x\n', '"": 1\n', '? [1, 2]\n: x\na: 1\n',
    '? {k: v}\n: x\n', 'a: 1\na: 2\n', '{}\n', '[]\n', '[a, b]\n', 'x\n',
    '1\n', '1.5\n', 'true\n', '~\n', '""\n', '!!str 1\n', '2001-12-14\n',
    '- a: 1\n', 'a: &x 1\nb_c: *x\n', '!Probe {a: 1}\n', '!!map {a: 1}\n',
    '!!set {a}\n', '!!omap [a: 1]\n', '!!binary aGk=\n', 'a: !!binary aGk=\n',
]


SPELL_HINT = {
    '1': (1, 'int'), '15': (2, 'int'), '0x1F': (4, 'int'), '017': (2, 'int'),
    '1:30': (5, 'int'), '1.5': (8, 'float'), '.inf': (11, 'float'),
    '.nan': (13, 'float'), 'true': (14, 'bool'), 'False': (15, 'bool'),
    '~': (16, 'none'), '': (16, 'none'), 'x': (18, 'str'), 'A': (19, 'str'),
    '"1"': (20, 'str'), '"true"': (21, 'str'), 'red': (None, 'color'),
    '[1, 2]': (None, 'list_int'), '[x, y]': (None, 'seq_str'),
    '[]': (None, 'list_any'), '{k: 1}': (None, 'dict_int'),
    '{}': (None, 'map_any'), '{x: 3, y: s}': (None, 'inner'),
    '[1, [2]]': (None, 'list_any'), '2001-12-14': (None, 'date'),
    '!!int "31"': (4, 'int'), '1e3': (None, 'float'), '1000': (7, 'int'),
    '90': (5, 'int'), '!Inner {x: 1}': (None, 'inner'),
    '[{x: 1}]': (None, 'list_inner'), '1.0': (9, 'float'), '+1': (1, 'int'),
    '0': (0, 'int'), '0.0': (10, 'float'), '17': (3, 'int'),
    'null': (16, 'none'), '"x"': (18, 'str'), '1_000': (7, 'int'),
    '{x: s}': (None, 'map_any'), 'yes': (None, 'str'), '-0.0': (10, 'float'),
    # mappings that are no class mapping for a reason other than a type:
    # a key twice, a key that is no scalar
    '{sx: 1, sp: 2, sq: 3}': (None, 'shape'), '{sx: 1, sp: 2}': (None, 'polygon'),
    '{sx: 1}': (None, 'shape'), '{sx: 1, sp: 2, sq: x}': (None, 'square'),
    '[{sx: 1, sp: 2}, {sx: 1, sp: 2, sq: 3}]': (None, 'list_shape'),
    '[{sx: 1, sp: 2, sq: 3}]': (None, 'list_shape'),
    '{bx: 1}': (None, 'base2'), '{bx: 1, kr: 1.5}': (None, 'kid2'),
    '{bx: 1, kr: 1.5, kr: 2.5}': (None, 'base2'),
    '{bx: 1, kr: 1.0, kr: x}': (None, 'union_kid2_dict'),
    '{bx: 1, kr: 2}': (None, 'base2'), '{bx: 1, bx: 1, kr: 1.5}': (None, 'kid2'),
    '!Other {x: 3}': (None, 'inner'), '!InnerX {x: 3}': (None, 'inner'),
    '!<tag:example.com,2000:x> {x: 3}': (None, 'inner'),
    '!<tag:example.com,2000:x> {sx: 1, sp: 2, sq: 3}': (None, 'shape'),
    '!Kid2 {bx: 1, kr: 1.5}': (None, 'base2'), '!Kid2 {bx: 1}': (None, 'base2'),
    '{x: 1, x: 2}': (None, 'inner'), '{x: 1, y: s, y: t}': (None, 'inner'),
    '{x: 1, [p]: 2}': (None, 'inner'), '[{x: 1, x: 1}]': (None, 'list_inner'),
    # keys that look like format fields (messages are built from key names)
    '{"{y}": s}': (None, 'inner'), '{"{}": 1, y: s}': (None, 'inner'),
    '{"{0}": 1}': (None, 'inner'), '{"a{": 1, "b}": 2}': (None, 'inner'),
    '{"%s": 1, y: s}': (None, 'inner'), '{"%(x)s": 1}': (None, 'inner'),
    '{x: 1, "{y}": s}': (None, 'inner'), '{sx: 1, "{sp}": 2}': (None, 'polygon'),
    '{"${HOST}": 1, sp: 2}': (None, 'shape'), '{"{:d}": 1}': (None, 'base2'),
}
KEY_NAME = {'a': 'a', 'b_c': 'b_c', 'b-c': 'b-c', 'zz': 'zz', '1': '1',
            'true': 'true', '""': ''}


def gen_doc(rng):
    """A random document text built from value spellings, and a helper call
    that has a fair chance of being satisfied by it."""
    spellings = sorted(SPELL_HINT)
    keys = ['a', 'b_c', 'b-c', 'zz', '1', 'true', '""']
    r = rng.random()
    if r < 0.8:
        n = rng.randint(1, 3)
        ks = rng.sample(keys, n)
        sp = [rng.choice(spellings) for _ in ks]
        text = ''.join('%s: %s\n' % (k, v) for k, v in zip(ks, sp))
        i = rng.randrange(n)
        name = KEY_NAME[ks[i]]
        vi, th = SPELL_HINT[sp[i]]
        c = rng.random()
        if c < 0.15:
            call = ['attribute', name, None]
        elif c < 0.5:
            call = ['attribute', name, th if rng.random() < 0.7
                    else rng.choice(sorted(TYPES))]
        elif c < 0.75:
            call = ['value', name, vi if vi is not None and rng.random() < 0.7
                    else rng.randrange(len(VALUES))]
        elif c < 0.95:
            call = ['value_not', name, vi if vi is not None
                    and rng.random() < 0.5 else rng.randrange(len(VALUES))]
        else:
            call = ['mapping']
        return text, call
    if r < 0.9:
        return '[%s]\n' % ', '.join(rng.choice(spellings) for _ in range(
            rng.randint(0, 3))), rng.choice([['sequence'], ['mapping'],
                                             ['scalar', []]])
    sp = rng.choice(spellings)
    th = SPELL_HINT[sp][1]
    types = [th] if th in ('int', 'str', 'float', 'bool', 'none') and \
        rng.random() < 0.6 else list(rng.choice(SCALAR_ARGS))
    return sp + '\n', ['scalar', types]


def all_calls():
    calls = []
    for ts in SCALAR_ARGS:
        calls.append(['scalar', list(ts)])
    calls.append(['mapping'])
    calls.append(['sequence'])
    for a in ATTRS:
        calls.append(['attribute', a, None])
        for t in sorted(TYPES):
            calls.append(['attribute', a, t])
        for i in range(len(VALUES)):
            calls.append(['value', a, i])
            calls.append(['value_not', a, i])
    return calls


CALLS = all_calls()
FOCUS_CALLS = [c for c in CALLS if c[0] in ('scalar', 'mapping', 'sequence')
               or c[1] in ('a', 'b_c', 'missing')]


def shard(ctx):
    from vlib import repotests
    repotests.run(ctx, 'C16', ['recognize-pure', 'require-pure'])
    env = get_env()
    k = 0
    for text in HAND_DOCS:
        for call in FOCUS_CALLS:
            if ctx.mine(k):
                run_case(ctx, env, text, call)
            k += 1
    for _ in range(ctx.budget(60000, 900000)):
        text, call = gen_doc(ctx.rng)
        if ctx.rng.random() < 0.25:
            call = ctx.rng.choice(CALLS if ctx.rng.random() < 0.3
                                  else FOCUS_CALLS)
        run_case(ctx, env, text, call)
        if len(env.loaded_ok) >= 20 and ctx.rng.random() < 0.15:
            run_case(ctx, env, text, call, stream=ctx.rng.randint(1, 12))


def replay(ctx, case):
    env = get_env()
    if case.get('stream_before'):
        env.loaded_ok = list(case['stream_before'])
        import random
        ctx.rng = _Fixed(len(env.loaded_ok))
        run_case(ctx, env, case['text'], case['call'],
                 stream=len(env.loaded_ok))
        return
    run_case(ctx, env, case['text'], case['call'])


class _Fixed:
    """rng stand-in for replays: the fillers in their recorded order."""

    def __init__(self, n):
        self.i = -1
        self.n = n

    def randrange(self, n):
        self.i += 1
        return self.i % self.n
