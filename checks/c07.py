"""C07 - JSON dumps are valid JSON with the same data under every formatting
option.

Monitors
  * boundary oracle on the text returned by dumps_json(obj, indent=,
    ensure_ascii=): strict RFC 8259 validator (own recursive descent) and
    json.loads with parse_constant raising; content equals the JSON projection
    (ordered, exact types); default output ASCII-only and free of whitespace
    outside strings; ensure_ascii=False leaves printable non-ASCII unescaped;
    round trip through the matching load function for printable-BMP strings.
  * invariant hook on the real Dumper.emit_json (installed from here): after
    every event the emitter's stack depth equals the number of open
    containers, the current indent equals depth * best_indent, and the stack
    is back to [NONE] at document end; the hook also counts the
    (state, event) transitions that were exercised.
"""
import datetime
import json
import math

import yaml

import yatiml
from vlib import plain

PROPERTY = 'C07'
RULE = ('cases = (value, indent, ensure_ascii). Values: every plain-data tree '
        'shape with up to N nodes (quick 6 with all 20 configurations + 7 with '
        '2; thorough 8 with all 20 + 9 with one rotating configuration) over '
        'leaf kinds {scalar, [], {}} with scalar kinds and key spellings '
        'rotated by position (exhaustive over shapes); random plain trees with '
        'adversarial strings (quotes, backslashes, C0/C1, DEL, NEL, LS/PS, '
        'non-BMP, lone surrogates) and dates; generated class-model values. '
        'indent in {None,0..8}, ensure_ascii in {True,False}. A case is '
        'non-trivial if the value has at least one container or a string '
        'needing an escape; distinct = distinct (value digest, configuration).')
ASSUMPTIONS = [
    'json.loads of CPython is a correct JSON reader (used next to an own '
    'strict validator)',
    'preconditions of the statement are enforced by the generator: tree-shaped '
    'values, finite floats, string keys',
    '"printable" is str.isprintable(); the round-trip clause is applied to '
    'date-free values whose strings are printable BMP and at most 200 chars '
    '(PyYAML limits simple keys to 1024 characters)',
    'datetime values project to isoformat(" ") as pinned by '
    'tests/test_builtin_types.py::test_dump_datetime_json',
    'a model whose sweetener removes default values drops -0.0 for a default '
    'of 0.0 (== comparison) and gets 0.0 back: that sign change is the '
    'model\'s doing and not judged by the round-trip clause (as in C05)',
]


def EXHAUSTIVE(tier):
    return True


def requirements(tier):
    q = tier == 'quick'
    return {'dumps': 150000 if q else 3000000,
            'shapes_enumerated': 10000 if q else 600000,
            'emitter_events': 1000000 if q else 20000000,
            'emitter_transitions_distinct_x16': 16 * 17,
            'roundtrip_loads': 20000 if q else 200000,
            'string_cases': 5000 if q else 50000,
            'model_values': 5000 if q else 80000,
            'model_class_values': 2000 if q else 30000,
            'model_roundtrip_loads': 1500 if q else 20000,
            'aborted_dumps': 600 if q else 8000,
            'stream_dumps': 60000 if q else 800000}


INDENTS = [None, 0, 1, 2, 3, 4, 5, 6, 7, 8]
CONFIGS = [(i, a) for i in INDENTS for a in (True, False)]

SCALARS = ['s', 1, 1.5, True, None, False, 'q"\\\n', -7, 2.0e-7, '\u00e9',
           '', 1e22]
KEYS = ['a', 'k b', '', '\u00e9', '"q"', 'n\nl', 'true', '1', '\\', 'z:']


# ---------------------------------------------------------------------------
# shape enumeration

def forests(n, memo={}):
    """All ordered forests with exactly n nodes. A tree is 'S' (scalar) or
    ('seq'|'map', [children])."""
    if n == 0:
        return [[]]
    if n in memo:
        return memo[n]
    out = []
    for k in range(1, n + 1):
        for t in trees(k):
            for rest in forests(n - k):
                out.append([t] + rest)
    memo[n] = out
    return out


def trees(n, memo={}):
    if n in memo:
        return memo[n]
    out = []
    if n == 1:
        out.append('S')
    for f in forests(n - 1):
        out.append(('seq', f))
        out.append(('map', f))
    memo[n] = out
    return out


def realise(shape, counter):
    """Shape -> plain value; scalar kinds and keys rotate by position."""
    if shape == 'S':
        v = SCALARS[counter[0] % len(SCALARS)]
        counter[0] += 1
        return v
    kind, kids = shape
    if kind == 'seq':
        return [realise(k, counter) for k in kids]
    d = {}
    for i, k in enumerate(kids):
        key = KEYS[(counter[0] + i) % len(KEYS)] + ('' if i < len(KEYS)
                                                    else str(i))
        while key in d:
            key += '_'
        d[key] = realise(k, counter)
    return d


# ---------------------------------------------------------------------------
# JSON projection of plain data

def jproj(v):
    if isinstance(v, datetime.datetime):
        return v.isoformat(' ')
    if isinstance(v, datetime.date):
        return v.isoformat()
    if isinstance(v, dict):
        return {jproj(k): jproj(x) for k, x in v.items()}
    if isinstance(v, list):
        return [jproj(x) for x in v]
    return v


def has_dates(v):
    if isinstance(v, (datetime.date, datetime.datetime)):
        return True
    if isinstance(v, dict):
        return any(has_dates(x) for x in v.values())
    if isinstance(v, list):
        return any(has_dates(x) for x in v)
    return False


def _no_constant(name):
    raise ValueError('non-JSON constant ' + name)


# ---------------------------------------------------------------------------
# emitter invariant hook

class EmitterHook:
    """Installed on the real Dumper.emit_json; shadow model = depth counter."""

    def __init__(self):
        self.events = 0
        self.transitions = set()
        self.broken = []        # (reason, detail)
        self.unavailable = None
        self.installed = False

    def install(self):
        import yatiml.dumper as D
        from yaml.events import (
            DocumentEndEvent, DocumentStartEvent, MappingEndEvent,
            MappingStartEvent, ScalarEvent, SequenceEndEvent,
            SequenceStartEvent, StreamStartEvent, StreamEndEvent)
        if not hasattr(D.Dumper, 'emit_json'):
            self.unavailable = 'Dumper.emit_json not found'
            return
        orig = D.Dumper.emit_json
        hook = self

        def kind(ev):
            if isinstance(ev, ScalarEvent):
                return 'scalar'
            if isinstance(ev, SequenceStartEvent):
                return 'seq+'
            if isinstance(ev, MappingStartEvent):
                return 'map+'
            if isinstance(ev, SequenceEndEvent):
                return 'seq-'
            if isinstance(ev, MappingEndEvent):
                return 'map-'
            if isinstance(ev, DocumentEndEvent):
                return 'doc-'
            if isinstance(ev, DocumentStartEvent):
                return 'doc+'
            if isinstance(ev, StreamStartEvent):
                return 'stream+'
            if isinstance(ev, StreamEndEvent):
                return 'stream-'
            return type(ev).__name__

        def wrapped(self, event):
            k = kind(event)
            try:
                before = self._json_state[-1].name
            except Exception:
                before = None
                hook.unavailable = 'Dumper._json_state not readable'
            orig(self, event)
            hook.events += 1
            if before is None:
                return
            depth = getattr(self, '_verif_depth', 0)
            if k in ('seq+', 'map+'):
                depth += 1
            elif k in ('seq-', 'map-'):
                depth -= 1
            self._verif_depth = depth
            if k in ('scalar', 'seq+', 'map+', 'seq-', 'map-', 'doc-'):
                hook.transitions.add((before, k))
            try:
                if k in ('stream+', 'stream-', 'doc+'):
                    return
                if len(self._json_state) - 1 != depth:
                    hook.broken.append((
                        'stack-depth', 'after %s in state %s: stack %d, open '
                        'containers %d' % (k, before,
                                           len(self._json_state) - 1, depth)))
                if self._cur_indent != depth * self.best_indent:
                    hook.broken.append((
                        'indent', 'after %s in state %s: _cur_indent %r, '
                        'expected %d' % (k, before, self._cur_indent,
                                         depth * self.best_indent)))
                if k == 'doc-' and [s.name for s in self._json_state] != [
                        'NONE']:
                    hook.broken.append((
                        'stack-at-end', 'stack at document end: %r' % (
                            [s.name for s in self._json_state],)))
            except AttributeError as e:
                hook.unavailable = 'emitter internals renamed: %s' % e

        D.Dumper.emit_json = wrapped
        self.installed = True


HOOK = EmitterHook()


class Env:
    def __init__(self):
        HOOK.install()
        self.dumps = yatiml.dumps_json_function()
        self.dump = yatiml.dump_json_function()
        self.load = yatiml.load_function()


_env = None


def get_env():
    global _env
    if _env is None:
        _env = Env()
    return _env


# ---------------------------------------------------------------------------
# the oracle for one (value, indent, ensure_ascii) - value is plain data here;
# class-model values come in through run_dump() with their own projection.

def nontrivial_value(v):
    if isinstance(v, (dict, list)):
        return True
    if isinstance(v, str):
        return any(ord(c) > 126 or ord(c) < 32 or c in '"\\' for c in v)
    return False


def check_text(ctx, text, want, indent, ensure_ascii, case, label='plain'):
    """All text-level clauses. want = JSON projection (plain data)."""
    key = 'C07 %s ' % label
    cfg = 'indent=%s ensure_ascii=%s' % (
        'None' if indent is None else 'int', ensure_ascii)
    if not isinstance(text, str):
        ctx.violation(key + 'result-not-str', 'dumps_json returned %r' % (
            type(text),), case)
        return False
    try:
        scan = plain.JsonScan(text).validate()
    except plain.JsonInvalid as e:
        ctx.violation(key + 'invalid-json strict-validator ' + cfg,
                      'output is not RFC 8259 JSON: %s; text=%r' % (
                          e, text[:200]), case)
        return False
    try:
        got = json.loads(text, parse_constant=_no_constant)
    except ValueError as e:
        ctx.violation(key + 'invalid-json json.loads ' + cfg,
                      'json.loads rejects output: %s; text=%r' % (
                          e, text[:200]), case)
        return False
    if not plain.same(got, want):
        ctx.violation(key + 'content-differs ' + cfg,
                      'json.loads(text) != JSON projection: text=%r want=%r'
                      % (text[:200], want), case)
        return False
    if indent is None and ensure_ascii:
        if scan.non_ascii:
            ctx.violation(key + 'default-output-not-ascii',
                          'default output contains non-ASCII: %r' % text[:200],
                          case)
        if scan.ws_outside_strings:
            ctx.violation(key + 'default-output-has-whitespace',
                          'default output has whitespace outside strings: %r'
                          % text[:200], case)
    if ensure_ascii and scan.non_ascii:
        ctx.violation(key + 'ensure_ascii-output-not-ascii ' + cfg,
                      'ensure_ascii=True output contains non-ASCII: %r'
                      % text[:200], case)
    if not ensure_ascii:
        for cu in scan.escaped:
            ch = chr(cu)
            if cu > 127 and not (0xD800 <= cu <= 0xDFFF) and ch.isprintable():
                ctx.violation(
                    key + 'ensure_ascii-false-escapes-printable',
                    'ensure_ascii=False escaped printable U+%04X: %r' % (
                        cu, text[:200]), case)
                break
    return True


class _Sink:
    """A caller-opened stream that is no io.IOBase and has no encoding."""

    def __init__(self):
        self.parts = []

    def write(self, s):
        self.parts.append(s)

    def getvalue(self):
        return ''.join(self.parts)


def stream_dump(ctx, dump, value, want, indent, ensure_ascii, text, case,
                check_text, label='plain'):
    """The statement covers dump_json as well: what it writes to an open
    text stream (an io.StringIO, a bare object with write()) under the same
    options is judged by the same oracle; it is the text dumps_json
    returned, or the clause it breaks is reported."""
    import io
    for sink in (io.StringIO(), _Sink()):
        try:
            dump(value, sink, indent=indent, ensure_ascii=ensure_ascii)
        except Exception as e:
            ctx.violation(
                'C07 %s dump_json-to-stream-raised %s' % (
                    label, type(e).__name__),
                'dump_json(v, stream) raised %s: %s although dumps_json '
                'returned %r' % (type(e).__name__, e, text[:200]), case)
            return
        ctx.count('stream_dumps')
        got = sink.getvalue()
        if got == text:
            continue
        if check_text(ctx, got, want, indent, ensure_ascii, case,
                      label + '-stream'):
            ctx.violation(
                'C07 %s dump_json-to-stream-differs-from-dumps_json '
                'indent=%s ensure_ascii=%s' % (
                    label, 'None' if indent is None else 'int', ensure_ascii),
                'dump_json(v, stream) wrote %r, dumps_json returned %r' % (
                    got[:200], text[:200]), case)
        return


def run_plain(ctx, env, value, indent, ensure_ascii, origin):
    case = {'kind': 'plain', 'value': enc(value), 'indent': indent,
            'ensure_ascii': ensure_ascii}
    ctx.count('dumps')
    nbroken = len(HOOK.broken)
    try:
        text = env.dumps(value, indent=indent, ensure_ascii=ensure_ascii)
    except Exception as e:
        ctx.violation('C07 plain dumps-raised %s' % type(e).__name__,
                      'dumps_json raised %s: %s' % (type(e).__name__, e), case)
        ctx.case(case, True)
        return
    report_hook(ctx, nbroken, case)
    ok = check_text(ctx, text, jproj(value), indent, ensure_ascii, case)
    if origin == 'string' or ctx.counters['dumps'] % 7 == 0:
        stream_dump(ctx, env.dump, value, jproj(value), indent, ensure_ascii,
                    text, case, check_text)
    ctx.case(case, nontrivial_value(value))
    if ok and not has_dates(value):
        strs = list(plain.walk_strings(value))
        if all(plain.is_printable_bmp(s) and len(s) <= 200 for s in strs):
            ctx.count('roundtrip_loads')
            try:
                back = env.load(text)
            except Exception as e:
                ctx.violation(
                    'C07 plain roundtrip load-raised %s' % type(e).__name__,
                    'loading the JSON text raised %s: %s; text=%r' % (
                        type(e).__name__, e, text[:200]), case)
                return
            if not plain.same(back, value):
                ctx.violation(
                    'C07 plain roundtrip value-differs',
                    'load(dumps_json(v)) != v: text=%r back=%r' % (
                        text[:200], back), case)
    if len(ctx.samples) < 4 and origin != 'shape':
        ctx.sample({'origin': origin, 'value': repr(value)[:200],
                    'indent': indent, 'ensure_ascii': ensure_ascii,
                    'text': text[:300]}, origin)


class _Boom(Exception):
    pass


class _FailingSink:
    """Text sink whose k-th write raises."""

    def __init__(self, k):
        self.k = k

    def write(self, s):
        self.k -= 1
        if self.k <= 0:
            raise _Boom('sink refuses')


_abort_env = {}


def abort_dump(ctx, env, rng):
    """A JSON dump that is abandoned half-way (the statement quantifies
    over every call, whatever happened before it): a value that contains the
    same list twice (documented RuntimeError for aliases) or a sink whose
    write() raises.  What the aborted call does is not judged; the regular
    cases that follow are."""
    ctx.count('aborted_dumps')
    nbroken = len(HOOK.broken)
    if rng.random() < 0.5:
        shared = [1, {'k': 'v'}]
        v = rng.choice([[shared, shared], {'a': shared, 'b': [shared]},
                        [[0, shared], {'x': {'y': shared}}]])
        try:
            env.dumps(v, indent=rng.choice(INDENTS))
            ctx.count('aborted_dump_did_not_raise')
        except Exception:
            pass
    else:
        if 'dump' not in _abort_env:
            _abort_env['dump'] = yatiml.dump_json_function()
        v = {'a': [1, 2, {'b': [3, 4]}], 'c': {'d': 'e'}}
        try:
            _abort_env['dump'](v, _FailingSink(rng.randint(1, 12)),
                               indent=rng.choice(INDENTS))
        except _Boom:
            pass
        except Exception:
            ctx.count('aborted_dump_other_exception')
    # violations of the emitter invariant inside the aborted call itself are
    # expected (it never reaches the document end): discard them
    del HOOK.broken[nbroken:]
    run_plain(ctx, env, [1, {'a': [2, 'x']}, []], rng.choice(INDENTS),
              rng.random() < 0.5, 'after-abort')


def report_hook(ctx, nbroken, case):
    for reason, detail in HOOK.broken[nbroken:]:
        ctx.violation('C07 emitter-invariant ' + reason, detail, case)
    del HOOK.broken[nbroken:]


# JSON-able encoding of plain values (dates, surrogates, non-finite floats)
def enc(v):
    if isinstance(v, datetime.datetime):
        return {'$dt': v.isoformat()}
    if isinstance(v, datetime.date):
        return {'$d': v.isoformat()}
    if isinstance(v, float) and (math.isnan(v) or math.isinf(v)):
        return {'$f': repr(v)}
    if isinstance(v, str):
        if plain.has_surrogate(v):
            return {'$s': [ord(c) for c in v]}
        return v
    if isinstance(v, dict):
        return {'$m': [[enc(k), enc(x)] for k, x in v.items()]}
    if isinstance(v, list):
        return [enc(x) for x in v]
    return v


def dec(v):
    if isinstance(v, dict):
        if '$dt' in v:
            return datetime.datetime.fromisoformat(v['$dt'])
        if '$d' in v:
            return datetime.date.fromisoformat(v['$d'])
        if '$f' in v:
            return float(v['$f'])
        if '$s' in v:
            return ''.join(chr(c) for c in v['$s'])
        return {dec(k): dec(x) for k, x in v['$m']}
    if isinstance(v, list):
        return [dec(x) for x in v]
    return v


def shard(ctx):
    env = get_env()
    from vlib import repotests
    repotests.run(ctx, 'C07', ['emit-json-state'])
    full_n = ctx.pick(6, 8)
    part_n = ctx.pick(7, 9)
    idx = 0
    for n in range(1, part_n + 1):
        for shape in trees(n):
            mine = ctx.mine(idx)
            idx += 1
            if not mine:
                continue
            ctx.count('shapes_enumerated')
            value = realise(shape, [idx])
            if n <= full_n:
                cfgs = CONFIGS
            elif ctx.tier == 'quick':
                cfgs = [(None, True), (2, False)]
            else:
                cfgs = [CONFIGS[idx % len(CONFIGS)]]
            for indent, asc in cfgs:
                run_plain(ctx, env, value, indent, asc, 'shape')
            if idx % 5000 == 1:
                ctx.sample({'origin': 'shape', 'nodes': n,
                            'value': repr(value)[:200],
                            'text': env.dumps(value)[:200]}, 'shape')
    # string contents, each string alone, as key, nested
    pools = (plain.STR_LOOKALIKE + plain.STR_UNICODE + plain.STR_SURROGATE
             + plain.STR_JSONY)
    for i, s in enumerate(pools):
        if not ctx.mine(i):
            continue
        for value in (s, [s], {s: s}, {'k': [s, {s: None}]}):
            for indent, asc in ((None, True), (None, False), (2, True),
                                (0, False)):
                ctx.count('string_cases')
                run_plain(ctx, env, value, indent, asc, 'string')
    for _ in range(ctx.budget(40000, 600000)):
        value = plain.rand_plain(
            ctx.rng, depth=ctx.rng.randint(0, 4),
            classes=('look', 'uni', 'json', 'sur'), finite=True, dates=True)
        indent, asc = ctx.rng.choice(CONFIGS)
        ctx.count('string_cases')
        if ctx.rng.random() < 0.03:
            abort_dump(ctx, env, ctx.rng)
        run_plain(ctx, env, value, indent, asc, 'random')
    # class-model values
    try:
        from checks import c07_models
    except ImportError:
        c07_models = None
    if c07_models is not None:
        c07_models.shard(ctx, check_text, report_hook, HOOK, CONFIGS)
    ctx.count('emitter_events', HOOK.events)
    # distinct transitions are merged by max over shards via a x16 trick:
    # each shard reports its own count; the requirement divides by shards
    ctx.count('emitter_transitions_distinct_x16', len(HOOK.transitions))
    for t in sorted(HOOK.transitions):
        ctx.count('transition %s/%s' % t)
    if HOOK.unavailable:
        ctx.note('emitter hook unavailable: ' + HOOK.unavailable)
        ctx.count('emitter_hook_unavailable')


def replay(ctx, case):
    env = get_env()
    if case.get('kind') == 'plain':
        run_plain(ctx, env, dec(case['value']), case['indent'],
                  case['ensure_ascii'], 'replay')
    else:
        from checks import c07_models
        c07_models.replay(ctx, case, check_text, report_hook, HOOK)
