"""Random class-model specs.

gen_model(rng, profile):
  'unamb'  unambiguous by construction (every plain class has at least one
           required parameter whose name no unrelated class uses; unions take
           at most one member per node-kind/tag group; Any holds plain data;
           seasoning only as inverse savorize/sweeten pairs)
  'free'   an unambiguous model with random relaxations: dropped
           discriminators, all-optional classes, permissive recognisers,
           unregistered / abstract classes, sabotaging savorizers, raising
           constructors, multiple inheritance.
"""
import copy

from vlib import models as M
from vlib import plain

ENUM_MEMBER_POOLS = [
    ['red', 'green', 'blue'],
    ['RED', 'GREEN'],
    ['true', 'false', 'maybe'],
    ['no', 'on', 'off', 'y'],
    ['null', 'x1'],
    ['A', 'B', 'C', 'D'],
    ['low_x', 'HIGH_X'],
]
UPPER_ENUM = ['RED', 'ORANGE', 'NO', 'ON', 'FALSE', 'BLACK_AND_WHITE']


def _scalar_types(ctx, rich=True):
    base = ['str', 'int', 'float', 'bool']
    if rich:
        base += ['date', 'path', 'str', 'int']
    return base


class Gen:
    def __init__(self, rng, profile='unamb'):
        self.rng = rng
        self.profile = profile
        self.classes = []
        self.names = []
        self.enums = []
        self.strlikes = []
        self.plains = []        # names of plain classes (instantiable or not)
        self.counter = 0
        self.forbidden = set()  # classes the class being built must not reach

    def new_name(self, prefix):
        self.counter += 1
        return '%s%d' % (prefix, self.counter)

    # -- types ------------------------------------------------------------------
    def group(self, t):
        """Node-kind/tag group of a type, for union disjointness."""
        if isinstance(t, str):
            return {'str': 'S', 'path': 'S', 'int': 'I', 'float': 'F',
                    'bool': 'B', 'buf': 'B', 'none': 'N', 'date': 'D',
                    'any': '*'}[t]
        k = t[0]
        if k == 'cls':
            kind = self.kind_of(t[1])
            if kind == 'enum':
                return 'SB'      # str or bool tagged scalars
            if kind in ('str', 'userstring', 'stringlike'):
                return 'S'
            if any(c['name'] == t[1] and c.get('parsed')
                   for c in self.classes):
                return 'S'
            return 'M'
        if k in ('list', 'seq', 'mseq'):
            return 'Q'
        if k in ('dict', 'map', 'mmap'):
            return 'M'
        if k == 'opt':
            return 'N' + self.group(t[1])
        if k == 'union':
            return ''.join(self.group(x) for x in t[1:])
        raise ValueError(t)

    def kind_of(self, name):
        for c in self.classes:
            if c['name'] == name:
                return c.get('kind', 'plain')
        raise KeyError(name)

    def scalar_type(self):
        r = self.rng.random()
        if r < 0.72 or not (self.enums or self.strlikes):
            return self.rng.choice(_scalar_types(self))
        pool = self.enums + self.strlikes
        return ['cls', self.rng.choice(pool)]

    def key_type(self):
        if self.strlikes and self.rng.random() < 0.3:
            return ['cls', self.rng.choice(self.strlikes)]
        return 'str'

    def class_type(self):
        """A plain class usable as a value type (roots of hierarchies too)."""
        usable = [n for n in self.plains if self.instantiable_somewhere(n)
                  and not (self.closure(n) & self.forbidden)]
        if not usable:
            return None
        return ['cls', self.rng.choice(usable)]

    def instantiable_somewhere(self, name):
        return True

    def closure(self, name, seen=None):
        """Classes reachable from values of class `name`: the class, its
        descendants, and the classes their parameters mention."""
        seen = set() if seen is None else seen
        if name in seen:
            return seen
        seen.add(name)
        for c in self.classes:
            if c['name'] == name:
                for p in c.get('params', []):
                    for n in self.mentioned(p['type']):
                        self.closure(n, seen)
            if name in c.get('bases', []):
                self.closure(c['name'], seen)
        return seen

    def mentioned(self, t):
        if isinstance(t, str):
            return []
        if t[0] == 'cls':
            return [t[1]]
        out = []
        for x in t[1:]:
            out.extend(self.mentioned(x))
        return out

    def ancestors(self, c):
        out = set()
        todo = list(c.get('bases', []))
        while todo:
            b = todo.pop()
            if b in out:
                continue
            out.add(b)
            for d in self.classes:
                if d['name'] == b:
                    todo.extend(d.get('bases', []))
        return out

    def gen_type(self, depth=2, allow_any=True):
        rng = self.rng
        r = rng.random()
        if depth <= 0 or r < 0.38:
            return self.scalar_type()
        if r < 0.52:
            ct = self.class_type()
            return ct if ct else self.scalar_type()
        if r < 0.66:
            return [rng.choice(['list', 'list', 'seq', 'mseq']),
                    self.gen_type(depth - 1, allow_any)]
        if r < 0.78:
            return [rng.choice(['dict', 'dict', 'map', 'mmap']),
                    self.key_type(), self.gen_type(depth - 1, allow_any)]
        if r < 0.86:
            t = self.gen_type(depth - 1, False)
            g = self.group(t)
            if 'N' in g or '*' in g:
                return t
            return ['opt', t]
        if r < 0.95:
            return self.gen_union(depth)
        return 'any' if allow_any else self.scalar_type()

    def gen_union(self, depth):
        rng = self.rng
        members = []
        used = set()
        for _ in range(rng.randint(2, 4)):
            t = self.gen_type(depth - 1, False)
            if isinstance(t, list) and t[0] in ('union', 'opt'):
                continue
            g = set(self.group(t))
            if g & used:
                continue
            # one mapping-kind member only (classes among themselves are
            # fine: they have unique required parameters) - kept simple
            used |= g
            members.append(t)
        if 'B' in used and rng.random() < 0.3 and not any(
                m == 'buf' for m in members):
            if any(m == 'bool' for m in members):
                if rng.random() < 0.3:
                    # bool_union_fix without bool next to it (what
                    # Union[int, bool, bool_union_fix] collapses to on old
                    # Pythons) stands for bool all the same
                    members[members.index('bool')] = 'buf'
                else:
                    members.append('buf')
        if len(members) < 2:
            return members[0] if members else 'int'
        return ['union'] + members

    # -- classes -----------------------------------------------------------------
    def add_scalar_classes(self):
        rng = self.rng
        for _ in range(rng.choice([0, 1, 1, 2])):
            name = self.new_name('E')
            c = {'name': name, 'kind': 'enum',
                 'members': list(rng.choice(ENUM_MEMBER_POOLS))}
            if rng.random() < 0.3:
                c['members'] = list(UPPER_ENUM[:rng.randint(2, 6)])
                c['savorize'] = [['enum_upper']]
                c['sweeten'] = [['enum_lower']]
            if rng.random() < 0.25:
                c['str_mixin'] = True       # class E(str, enum.Enum)
            if not c.get('savorize') and rng.random() < 0.3:
                # a second name for one member (an enum alias)
                c['aliases'] = {'zz_alias_' + name.lower(): rng.choice(
                    c['members'])}
            self.classes.append(c)
            self.enums.append(name)
        for kind in ('str', 'userstring', 'stringlike'):
            if rng.random() < 0.35:
                name = self.new_name({'str': 'S', 'userstring': 'U',
                                      'stringlike': 'L'}[kind])
                c = {'name': name, 'kind': kind}
                if kind == 'userstring' and rng.random() < 0.5:
                    c['constraint'] = rng.choice(['starts_a', 'nonempty'])
                elif kind in ('userstring', 'stringlike') and \
                        rng.random() < 0.4:
                    # seasoned string-like class: upper case in Python,
                    # lower case in YAML
                    c['constraint'] = 'upper'
                    c['savorize'] = [['enum_upper']]
                    c['sweeten'] = [['enum_lower']]
                self.classes.append(c)
                self.strlikes.append(name)

    def default_for(self, t):
        """A default value (encoded) compatible with type t, or None if this
        type gets no default."""
        rng = self.rng
        if isinstance(t, str):
            if t == 'str':
                return rng.choice(['x', '', 'red', '1', 'true'])
            if t == 'int':
                return rng.choice([0, 7, 42, -1])
            if t == 'float':
                return M.enc(rng.choice([7.5, 0.0, 1.0, -2.5]))
            if t == 'bool':
                return rng.random() < 0.5
            if t == 'none':
                return None
            if t in ('any', 'untyped'):
                return rng.choice([None, 3, 'q'])
            return '__none__'
        if t[0] == 'opt':
            return None
        if t[0] == 'cls' and self.kind_of(t[1]) == 'enum':
            c = [c for c in self.classes if c['name'] == t[1]][0]
            return {'$enum': t[1], 'member': c['members'][0]}
        if t[0] == 'union':
            for m in t[1:]:
                if m == 'none':
                    return None
            for m in t[1:]:
                if m in ('int', 'str', 'bool', 'float'):
                    return self.default_for(m)
        return '__none__'

    def add_plain_class(self, base=None):
        rng = self.rng
        name = self.new_name('C')
        pfx = name.lower()
        c = {'name': name, 'kind': 'plain', 'params': []}
        if base is not None:
            c['bases'] = [base['name']]
            c['params'] = copy.deepcopy(
                [p for p in base['params']])
        own = []
        # values must be finite: nothing this class holds may lead back to
        # one of its ancestors (whose values may be of this class)
        self.forbidden = self.ancestors(c)
        # unique required discriminating parameter
        own.append({'name': '%s_id' % pfx,
                    'type': rng.choice(['int', 'str', 'float', 'bool',
                                        self.scalar_type()])})
        for i in range(rng.randint(0, 3)):
            t = self.gen_type(2)
            p = {'name': '%s_%s' % (pfx, 'abcdef'[i]), 'type': t}
            if rng.random() < 0.08:
                p['type'] = 'untyped'
            if rng.random() < 0.06:
                p['name'] = '_' + p['name']     # "private" looking parameter
            own.append(p)
        if base is not None and rng.random() < 0.25:
            # recursive hierarchy: a derived class holds objects of one of its
            # ancestors (trees, linked lists); wrapped in a container or
            # Optional so that values stay finite
            anc = ['cls', rng.choice(sorted(self.forbidden))]
            own.append({'name': '%s_rec' % pfx, 'type': rng.choice([
                ['list', anc], ['opt', anc], ['dict', 'str', anc],
                ['seq', anc]])})
        # defaults go on a suffix of the parameter list
        ndef = rng.choice([0, 0, 1, 2, 3])
        params = [p for p in c['params'] if 'default' not in p] + own
        dparams = [p for p in c['params'] if 'default' in p]
        for p in reversed(params[1:] if base is None else own[1:]):
            if ndef <= 0:
                break
            d = self.default_for(p['type'])
            if d == '__none__':
                break
            p['default'] = d
            ndef -= 1
        # order: required first, then defaulted
        allp = params + dparams
        req = [p for p in allp if 'default' not in p]
        opt = [p for p in allp if 'default' in p]
        c['params'] = req + opt
        if rng.random() < 0.15:
            c['extra'] = True
        if rng.random() < 0.1 and not c.get('extra'):
            c['attributes_hook'] = True
        if rng.random() < 0.08 and base is None and not c.get('extra') \
                and not c.get('attributes_hook'):
            c['kind'] = 'dataclass'
            for p in c['params']:
                if p['type'] == 'untyped':
                    p['type'] = 'any'
        self.forbidden = set()
        self.classes.append(c)
        self.plains.append(name)
        return c

    def add_parsed_class(self):
        """A "parsed class": written as one string ('12|red'), recognised as
        a string scalar, split into typed attributes by its savorizer and
        joined again by its sweetener (replaces the node)."""
        rng = self.rng
        name = self.new_name('P')
        pfx = name.lower()
        fields = [['%s_id' % pfx, 'int']]
        params = [{'name': '%s_id' % pfx, 'type': 'int'}]
        plain_enums = [e for e in self.enums if not any(
            c['name'] == e and c.get('savorize') for c in self.classes)]
        for i in range(rng.randint(1, 2)):
            pn = '%s_%s' % (pfx, 'ab'[i])
            if plain_enums and rng.random() < 0.7:
                params.append({'name': pn,
                               'type': ['cls', rng.choice(plain_enums)]})
                fields.append([pn, 'enum'])
            else:
                params.append({'name': pn, 'type': 'int'})
                fields.append([pn, 'int'])
        sep = rng.choice(['|', ' ', '/', ' x '])
        c = {'name': name, 'kind': 'plain', 'params': params, 'parsed': True,
             'recognize': ['scalar', ['str']],
             'savorize': [['scalar_to_mapping_typed', fields, sep]],
             'sweeten': [['mapping_to_scalar', [f[0] for f in fields], sep]]}
        self.classes.append(c)
        self.plains.append(name)
        return c

    def vary_defaults(self):
        """Subclasses that change the default of an inherited parameter, and
        sibling classes that share one inherited _yatiml_defaults dict while
        each removes its own defaults."""
        rng = self.rng
        by = {c['name']: c for c in self.classes}

        def chain_has_removal(c):
            return any(by[a].get('sweeten') == [['remove_defaults']]
                       for a in self.ancestors(c) if a in by)
        for c in self.classes:
            if c.get('kind') != 'plain' or not c.get('bases') or \
                    chain_has_removal(c):
                continue
            inherited = {p['name'] for b in c['bases'] if b in by
                         for p in by[b].get('params', [])}
            for p in c['params']:
                if p['name'] in inherited and 'default' in p and p[
                        'type'] in ('int', 'str', 'float') and \
                        rng.random() < 0.25:
                    d = self.default_for(p['type'])
                    if d != '__none__':
                        old = p['default']
                        p['default'] = d
                        # descendants copied the parameter list when they
                        # were made: they inherit the new default (a
                        # descendant whose default differs from that of an
                        # ancestor that removes defaults would be a
                        # contradiction of the model's own making)
                        for dc in self.classes:
                            if c['name'] in self.ancestors(dc):
                                for q in dc['params']:
                                    if q['name'] == p['name'] and q.get(
                                            'default') == old:
                                        q['default'] = d
        for b in self.classes:
            if b.get('kind') != 'plain' or b.get('sweeten') or \
                    b.get('defaults_override') or chain_has_removal(b):
                continue
            kids = [c for c in self.classes if b['name'] in c.get(
                'bases', []) and c.get('kind') == 'plain'
                and not c.get('sweeten') and not c.get('savorize')
                and any('default' in p and p['type'] in (
                    'int', 'str', 'float', 'bool') for p in c['params'])]
            if len(kids) >= 2 and rng.random() < 0.5:
                # names no signature has: by itself it changes nothing
                b['defaults_override'] = {'zz_unused': 1}
                for k in kids:
                    if not any(by[d].get('sweeten') for d in by
                               if k['name'] in self.ancestors(by[d])):
                        k['sweeten'] = [['remove_defaults']]
                        k['savorize'] = [['record']]

    def add_roster(self):
        """Structural seasoning: an owner class whose list (or dict) of item
        objects is written as a mapping keyed by one item attribute
        (map_attribute_to_seq / seq_attribute_to_map, or
        map_attribute_to_index / index_attribute_to_map), optionally in the
        short form `key: value`."""
        rng = self.rng
        free_strlikes = [n for n in self.strlikes if not any(
            c['name'] == n and c.get('constraint') for c in self.classes)]

        def key_type():
            if free_strlikes and rng.random() < 0.35:
                return ['cls', rng.choice(free_strlikes)]
            return 'str'
        iname = self.new_name('I')
        ip = iname.lower()
        item = {'name': iname, 'kind': 'plain', 'roster_item': True,
                'params': [{'name': ip + '_key', 'type': key_type()},
                           {'name': ip + '_val', 'type': rng.choice(
                               ['int', 'int', 'str', 'float', 'bool'])}]}
        if rng.random() < 0.4:
            item['params'].append({'name': ip + '_opt', 'type': 'str',
                                   'default': 'd'})
        self.classes.append(item)
        self.plains.append(iname)
        oname = self.new_name('O')
        op = oname.lower()
        va = ip + '_val' if rng.random() < 0.6 else None
        attr = op + '_items'
        r = rng.random()
        if r < 0.25:
            # the other way round: a list in YAML, a dict keyed by name in
            # Python; the items do not hold the name themselves
            item['params'] = [q for q in item['params']
                              if q['name'] != ip + '_key']
            ptype = [rng.choice(['dict', 'map']), 'str', ['cls', iname]]
            # (no value attribute: seq_attribute_to_map would produce the
            # short form 'name: value', which is no mapping for the item)
            sav = [['seq_to_map', attr, 'name', None]]
            swe = [['map_to_seq', attr, 'name', None]]
            extra = {}
        elif r < 0.6:
            ptype = [rng.choice(['list', 'seq']), ['cls', iname]]
            sav = [['map_to_seq', attr, ip + '_key', va]]
            swe = [['seq_to_map', attr, ip + '_key', va]]
            extra = {'unique_list': [attr, ip + '_key']}
        else:
            ptype = [rng.choice(['dict', 'map']), key_type(), ['cls', iname]]
            sav = [['map_to_index', attr, ip + '_key', va]]
            swe = [['index_to_map', attr, ip + '_key', va]]
            extra = {'index_attr': [attr, ip + '_key']}
        owner = {'name': oname, 'kind': 'plain', 'roster': True,
                 'params': [{'name': op + '_id', 'type': 'int'},
                            {'name': attr, 'type': ptype}],
                 'recognize': ['all', ['attr', op + '_id', None],
                               ['attr', attr, None]],
                 'savorize': sav, 'sweeten': swe}
        owner.update(extra)
        self.classes.append(owner)
        self.plains.append(oname)

    def add_seasoning(self, c):
        """Inverse savorize/sweeten pairs from the menu."""
        rng = self.rng
        if c.get('kind') != 'plain' or c.get('parsed') or c.get('roster') \
                or c.get('roster_item'):
            return
        r = rng.random()
        names = [p['name'] for p in c['params']]
        # a sweetener of a base class also runs on objects of derived
        # classes: renaming keys (dashes) and recognisers that name keys must
        # not meet in one hierarchy, or the model contradicts itself
        chain = [d for d in self.classes if d is not c and (
            d['name'] in self.ancestors(c) or c['name'] in self.ancestors(d))]
        chain_dashes = any(d.get('sweeten') == [['unders_to_dashes']]
                           for d in chain)
        chain_recog = any(d.get('recognize') for d in chain)
        chain_extra = any(d.get('extra') for d in chain)
        # hooks of base and derived class both run bases-first when loading
        # and when dumping, so two of them rewriting the same attribute are
        # not inverses of each other any more
        chain_int = any((d.get('savorize') or [[None]])[0][0] in (
            'add_int', 'word_to_int') for d in chain)
        if r < 0.12 and not c.get('extra'):
            if not chain_recog and not chain_extra and not chain_int:
                c['savorize'] = [['dashes_to_unders']]
                c['sweeten'] = [['unders_to_dashes']]
        elif chain_dashes and r < 0.36:
            pass
        elif r < 0.2:
            kind_attr = 'kind'
            if kind_attr not in names and not c.get('extra'):
                # a discriminating attribute: the class name, or (a format
                # "version") an int, a bool or a float
                val = c['name']
                if rng.random() < 0.3:
                    kind_attr = 'version'
                    val = rng.choice([1, 2, 0, True, M.enc(1.5)])
                if kind_attr not in names:
                    c['recognize'] = ['attr_value', kind_attr, val]
                    if kind_attr == 'version':
                        # several classes may share a version number: the
                        # class's own required attribute keeps them apart
                        c['recognize'] = ['all', c['recognize'],
                                          ['attr', c['params'][0]['name']
                                           if not c.get('bases') else
                                           '%s_id' % c['name'].lower(), None]]
                    c['savorize'] = [['remove_attr', kind_attr]]
                    c['sweeten'] = [['set_attr', kind_attr, val]]
        elif r < 0.3:
            if any('default' in p and p['type'] in (
                    'int', 'str', 'float', 'bool') for p in c['params']):
                c['sweeten'] = [['remove_defaults']]
                c['savorize'] = [['record']]
                if rng.random() < 0.5:
                    # _yatiml_defaults: the constructor turns None into this
                    # value, which is what default removal compares with
                    cand = [p for p in c['params'] if p.get('default', 0)
                            is None and isinstance(p['type'], list)
                            and p['type'][0] == 'opt' and p['type'][1] in (
                                'int', 'str', 'float', 'bool')]
                    if cand:
                        q = rng.choice(cand)
                        c['defaults_override'] = {q['name']: {
                            'int': 99, 'str': 'other', 'bool': True,
                            'float': M.enc(3.25)}[q['type'][1]]}
        elif r < 0.36:
            ints = [p for p in c['params'] if p['type'] == 'int'
                    and 'default' not in p]
            has_sub = any(c['name'] in d.get('bases', [])
                          for d in self.classes)
            if ints and not has_sub and not chain_int:
                a = ints[0]['name']
                c['word_attr'] = a
                rules = [['attr', p['name'], None] for p in c['params']
                         if 'default' not in p and p['name'] != a]
                c['recognize'] = ['all', ['attr', a, ['union', 'int', 'str']]
                                  ] + rules
                c['savorize'] = [['word_to_int', a]]
                c['sweeten'] = [['int_to_word', a]]
        elif r < 0.42:
            c['savorize'] = [['record']]
            c['sweeten'] = [['record']]
        elif 0.5 <= r < 0.57:
            ints = [p for p in c['params'] if p['type'] == 'int'
                    and 'default' not in p]
            if ints and not chain_int and not chain_dashes:
                # an inverse pair that is not idempotent (base-1 <-> base-0
                # numbering): applying a hook twice, or only on one side,
                # changes the value
                a = ints[0]['name']
                c['savorize'] = [['add_int', a, -1]]
                c['sweeten'] = [['add_int', a, 1]]
        elif r < 0.5 and not c.get('extra') and 'zmark' not in names \
                and not chain_recog:
            # a marker attribute written by the sweetener through the Node
            # helpers (null, bool, number or text) and removed on loading
            c['savorize'] = [['remove_attr', 'zmark']]
            c['sweeten'] = [['set_attr', 'zmark', rng.choice(
                [None, None, True, 3, M.enc(2.5), 'txt',
                 M.enc(float('inf')), M.enc(float('-inf')),
                 M.enc(float('nan')), M.enc(1e22), 10 ** 30, ''])]]

    def build(self):
        rng = self.rng
        self.add_scalar_classes()
        n = rng.randint(1, 5)
        if rng.random() < 0.15:
            self.add_parsed_class()
        if rng.random() < 0.15:
            self.add_roster()
        for _ in range(n):
            base = None
            if self.plains and rng.random() < 0.45:
                bname = rng.choice(self.plains)
                base = [c for c in self.classes if c['name'] == bname][0]
                if base.get('kind') != 'plain' or base.get('extra') \
                        or base.get('attributes_hook') or base.get('parsed') \
                        or base.get('roster') or base.get('roster_item'):
                    base = None
            self.add_plain_class(base)
        # abstract roots: only classes that have a subclass
        for c in self.classes:
            if c.get('kind') == 'plain' and not c.get('bases') and any(
                    c['name'] in d.get('bases', []) for d in self.classes):
                r = rng.random()
                if r < 0.2:
                    c['abc'] = True
                elif r < 0.3:
                    c['abstractmethod'] = True
        # a class between an abstract root with an abstract method and a
        # leaf may leave the method unimplemented: abstract by inheritance
        for c in self.classes:
            bs = c.get('bases', [])
            if c.get('kind') == 'plain' and len(bs) == 1 and any(
                    d['name'] == bs[0] and (d.get('abstractmethod')
                                            or d.get('keep_abstract'))
                    for d in self.classes) and any(
                    c['name'] in d.get('bases', []) for d in self.classes) \
                    and rng.random() < 0.5:
                c['keep_abstract'] = True
        for c in self.classes:
            if c.get('kind') == 'plain' and not (
                    c.get('parsed') or c.get('roster') or c.get('roster_item')
                    or c.get('inherit_init')):
                if rng.random() < 0.12:
                    c['kwonly'] = ['kw_' + c['name'].lower()]
                if rng.random() < 0.25:
                    c['copy_args'] = True
        for c in self.classes:
            self.add_seasoning(c)
        self.vary_defaults()
        doc_type = self.gen_doc_type()
        spec = {'classes': self.classes, 'doc_type': doc_type,
                'profile': self.profile}
        return spec

    def gen_doc_type(self):
        rng = self.rng
        r = rng.random()
        ct = self.class_type()
        if r < 0.55 and ct:
            return ct
        if r < 0.7 and ct:
            return rng.choice([['list', ct], ['dict', 'str', ct],
                               ['opt', ct], ['seq', ct]])
        return self.gen_type(3)


def gen_unamb(rng):
    return Gen(rng, 'unamb').build()


# ---------------------------------------------------------------------------
# relaxations for the free profile

SAB_NODES = [['s', 'tag:yaml.org,2002:str', 'sab'],
             ['s', 'tag:yaml.org,2002:int', '7'],
             ['s', 'tag:yaml.org,2002:float', '7.5'],
             ['s', 'tag:yaml.org,2002:bool', 'true'],
             ['s', 'tag:yaml.org,2002:null', ''],
             ['seq', [['s', 'tag:yaml.org,2002:int', '1']]],
             ['map', [[['s', 'tag:yaml.org,2002:str', 'k'],
                       ['s', 'tag:yaml.org,2002:int', '1']]]],
             ['s', '!Unknown', 'x'],
             ['s', 'tag:yaml.org,2002:python/name:os.system', '']]


def relax(spec, rng, intensity=None):
    """Turn an unambiguous spec into a 'free' one (in place on a copy)."""
    spec = copy.deepcopy(spec)
    spec['profile'] = 'free'
    for c in spec['classes']:
        c.pop('_source', None)
    # classes whose seasoning depends on the exact shape of their attributes
    # (parsed classes, rosters and their items) are not relaxed
    plains = [c for c in spec['classes'] if c.get('kind', 'plain') in (
        'plain', 'dataclass') and not (c.get('parsed') or c.get('roster')
                                       or c.get('roster_item'))]
    k = intensity if intensity is not None else rng.randint(1, 4)
    for _ in range(k):
        if not plains:
            break
        c = rng.choice(plains)
        r = rng.random()
        names = [p['name'] for p in c['params']]
        if r < 0.12:
            # make every parameter optional where a default can be invented
            for p in c['params']:
                if 'default' not in p and p['type'] in (
                        'int', 'str', 'float', 'bool', 'any', 'untyped'):
                    p['default'] = {'int': 0, 'str': 'd', 'float': M.enc(0.5),
                                    'bool': False, 'any': None,
                                    'untyped': None}[p['type']]
            req = [p for p in c['params'] if 'default' not in p]
            opt = [p for p in c['params'] if 'default' in p]
            c['params'] = req + opt
        elif r < 0.22:
            c['recognize'] = rng.choice([['any'], ['mapping'], ['any'],
                                         ['scalar', ['str']],
                                         ['scalar', []], ['raise']])
        elif r < 0.42 and c.get('kind') == 'plain':
            sab = rng.choice(['sab_wrong_kind', 'sab_drop', 'sab_add_unknown',
                              'sab_nonstring_key', 'sab_scalar', 'sab_tag',
                              'sab_sequence', 'sab_subtag',
                              'raise_seasoning', 'raise_seasoning_bare'])
            if sab == 'sab_wrong_kind' and names:
                op = [sab, rng.choice(names), rng.choice(SAB_NODES)]
            elif sab == 'sab_drop' and names:
                op = [sab, rng.choice(names)]
            elif sab == 'sab_tag':
                op = [sab, rng.choice(['!Unknown', '!' + rng.choice(
                    spec['classes'])['name'], 'tag:yaml.org,2002:str',
                    'tag:yaml.org,2002:python/object:os.system'])]
            elif sab == 'sab_subtag' and names:
                op = [sab, rng.choice(names), rng.choice(
                    ['!Unknown', '!' + rng.choice(spec['classes'])['name'],
                     'tag:yaml.org,2002:int', 'tag:yaml.org,2002:str',
                     'tag:yaml.org,2002:python/object/apply:os.system'])]
            elif sab in ('sab_wrong_kind', 'sab_drop', 'sab_subtag'):
                op = ['sab_add_unknown']
            else:
                op = [sab]
            c['savorize'] = list(c.get('savorize') or []) + [op]
        elif r < 0.5:
            c['registered'] = False
        elif r < 0.58 and not any(c['name'] in d.get('bases', [])
                                  for d in spec['classes']):
            c['init_raises'] = rng.choice([
                ['always', rng.choice(sorted(M.EXC_TYPES))],
                ['always', 'ValueError']])
        elif r < 0.66 and len(c['params']) > 1 and not any(
                q['name'] == 'shared_id' for q in c['params']):
            # drop the discriminating first parameter's uniqueness: rename
            # it to a shared name
            c['params'][0]['name'] = 'shared_id'
        elif r < 0.72 and c.get('kind') == 'plain':
            c['abc'] = True
        elif r < 0.8 and c.get('kind') == 'plain':
            c['extra'] = True
            c.pop('attributes_hook', None)
        elif r < 0.88 and c.get('kind') == 'plain' and not c.get('bases'):
            # multiple inheritance from two earlier plain roots
            earlier = [d for d in plains if d is not c and d.get(
                'kind') == 'plain' and spec['classes'].index(d)
                < spec['classes'].index(c)]
            if len(earlier) >= 2:
                a, b = rng.sample(earlier, 2)
                if not set(a.get('bases', [])) & {b['name']} and not set(
                        b.get('bases', [])) & {a['name']} and \
                        a['name'] not in _ancestors(spec, b) and \
                        b['name'] not in _ancestors(spec, a) and \
                        not (a.get('abc') or b.get('abc')) and \
                        not (a.get('attributes_hook')
                             or b.get('attributes_hook')):
                    c['bases'] = [a['name'], b['name']]
        else:
            # duplicate a class under a new name: same attributes => siblings
            # or union members that cannot be told apart
            d = copy.deepcopy(c)
            d['name'] = c['name'] + 'Clone'
            if not any(x['name'] == d['name'] for x in spec['classes']):
                spec['classes'].append(d)
                plains.append(d)
    if rng.random() < 0.08 and plains:
        # Any inside a Union / Optional: pointless but legal annotations
        c = rng.choice(plains)
        if c.get('params') and c.get('kind') == 'plain':
            q = rng.choice(c['params'])
            if q['type'] != 'untyped' and 'default' not in q:
                if isinstance(q['type'], list) and q['type'][0] in (
                        'union', 'opt'):
                    q['type'] = ['opt', 'any']
                else:
                    q['type'] = rng.choice([['opt', 'any'],
                                            ['union', q['type'], 'any']])
    if rng.random() < 0.3:
        # widen the document type
        names = [c['name'] for c in plains if c.get('registered', True)]
        if names:
            choice = rng.random()
            if choice < 0.4:
                spec['doc_type'] = ['union'] + [
                    ['cls', n] for n in rng.sample(names, min(
                        len(names), rng.randint(1, 3)))] + ['int']
            elif choice < 0.7:
                spec['doc_type'] = 'any'
            else:
                spec['doc_type'] = ['opt', ['cls', rng.choice(names)]]
    return spec


def _ancestors(spec, c):
    by = {x['name']: x for x in spec['classes']}
    out = []
    todo = list(c.get('bases', []))
    while todo:
        b = todo.pop()
        if b in out or b not in by:
            continue
        out.append(b)
        todo.extend(by[b].get('bases', []))
    return out


def gen_free(rng):
    return relax(gen_unamb(rng), rng)


def gen_model(rng, profile='unamb'):
    if profile == 'unamb':
        return gen_unamb(rng)
    return gen_free(rng)
