"""Reference semantics of loading: an executable statement of the documented
pipeline (docs/problem_solving.rst "The YAtiML pipeline", advanced_features,
the property statements C02-C04), used as the oracle of C02, C03 and C04.

It is three-valued.  ref_load(model, text, doc_type) returns

    Accept(value, annotations)   the document is admitted; value was built by
                                 calling the model's real constructors
                                 bottom-up (so it can be compared with
                                 V.vsame and its constructor calls are in the
                                 model's event log)
    Reject(reason, yaml_level)   the documented rules do not admit it
    Unspecified(reason)          documentation and property are silent, or
                                 the repository pins something the statement
                                 does not cover: not judged

Nodes come from an independent composition: RefLoader is a stock
yaml.SafeLoader whose implicit resolution of plain scalars is the
hand-written YAML 1.2 classifier of vlib/scalars.py.

Nothing of yatiml's loader, recogniser or constructors is used.  The only
repository code reused is yatiml.Node's helper methods inside the *menu*
savorizers of the model (vlib/models.apply_season), which properties C14/C15
check on their own.
"""
import collections
import copy
import datetime

import yaml

import yatiml
from vlib import models as M
from vlib import scalars as S

CORE = 'tag:yaml.org,2002:'
PLAIN_SCALAR_TAGS = (S.TAG_STR, S.TAG_INT, S.TAG_FLOAT, S.TAG_BOOL,
                     S.TAG_NULL, S.TAG_TS)


class RefLoader(yaml.SafeLoader):
    def resolve(self, kind, value, implicit):
        if kind is yaml.ScalarNode:
            if implicit[0]:
                return S.ref_resolve_plain(value)
            return S.TAG_STR
        return super().resolve(kind, value, implicit)


class Accept:
    kind = 'accept'

    def __init__(self, value, classes):
        self.value = value
        self.classes = classes      # Counter of class names constructed


class Reject:
    kind = 'reject'

    def __init__(self, reason, yaml_level=False):
        self.reason = reason
        self.yaml_level = yaml_level


class Unspecified:
    kind = 'unspecified'

    def __init__(self, reason):
        self.reason = reason


class _Unspec(Exception):
    pass


class _Fail(Exception):
    """The documented rules reject the document (at this node)."""

    def __init__(self, reason, yaml_level=False):
        Exception.__init__(self, reason)
        self.reason = reason
        self.yaml_level = yaml_level


_scalar_ctor = yaml.constructor.SafeConstructor()


def construct_scalar(node):
    n = yaml.ScalarNode(node.tag, node.value, node.start_mark, node.end_mark,
                        style=node.style)
    try:
        return _scalar_ctor.construct_object(n, deep=True)
    except yaml.YAMLError:
        raise _Fail('PyYAML cannot construct %s %r' % (node.tag, node.value),
                    True)
    except (ValueError, KeyError, AttributeError, IndexError, TypeError,
            OverflowError):
        raise _Fail('invalid value %r for a scalar tagged %s' % (
            node.value, node.tag))


TAG_OF = {'str': S.TAG_STR, 'int': S.TAG_INT, 'float': S.TAG_FLOAT,
          'bool': S.TAG_BOOL, 'buf': S.TAG_BOOL, 'none': S.TAG_NULL,
          'date': S.TAG_TS}


def tkey(t):
    """Hashable form of a type of the model type language."""
    if isinstance(t, list):
        return tuple(tkey(x) for x in t)
    return t


class Ref:
    def __init__(self, model, rules=None):
        self.m = model
        self.rules = rules if rules is not None else collections.Counter()
        self.classes = collections.Counter()
        self.implicit = set()
        dt = model.spec.get('doc_type')
        if isinstance(dt, list) and dt[0] == 'cls':
            self.implicit.add(dt[1])

    def rule(self, name):
        self.rules[name] += 1

    # -- model facts ------------------------------------------------------------
    def registered(self, name):
        return name in self.implicit or self.m.cspecs[name].get(
            'registered', True)

    def direct_subclasses(self, name):
        return [c['name'] for c in self.m.spec['classes']
                if name in c.get('bases', []) and self.registered(c['name'])]

    def kind(self, name):
        return self.m.cspecs[name].get('kind', 'plain')

    def check_model(self):
        """Model-level features the statement does not cover."""
        for c in self.m.spec['classes']:
            if not self.registered(c['name']):
                # unregistered class with a registered ancestor and a
                # registered descendant: "reachable only through an
                # unregistered intermediate"
                anc = [a for a in self.m._all_bases(c) if a in self.m.cspecs
                       and self.registered(a)]
                desc = [d for d in self.m.descendants(c['name'])
                        if self.registered(d)]
                if anc and desc:
                    raise _Unspec('unregistered intermediate class')
            for op in (c.get('savorize') or []):
                if op[0].startswith('sab_') or op[0] == 'raise_seasoning_bare':
                    raise _Unspec('sabotaging savorizer')
            if len(c.get('bases', [])) > 1:
                self.rule('model-multiple-inheritance')

    # -- recognition ---------------------------------------------------------------
    def rec(self, node, t):
        """Set of hashable types the node is recognised as (0, 1 or more)."""
        if isinstance(t, str):
            if t in ('any', 'untyped'):
                return {'any'}
            if t == 'path':
                if isinstance(node, yaml.ScalarNode) and node.tag == S.TAG_STR:
                    return {'path'}
                return set()
            if isinstance(node, yaml.ScalarNode) and node.tag == TAG_OF[t]:
                return {t}
            return set()
        k = t[0]
        if k in ('list', 'seq', 'mseq'):
            if not isinstance(node, yaml.SequenceNode):
                return set()
            for item in node.value:
                r = self.rec(item, t[1])
                if not r:
                    return set()
                if len(r) > 1:
                    return {(k, x) for x in r}
            return {tkey(t)}
        if k in ('dict', 'map', 'mmap'):
            if not isinstance(node, yaml.MappingNode):
                return set()
            self.check_keys(node)
            for kn, vn in node.value:
                r = self.rec(kn, t[1])
                if not r:
                    return set()
                if len(r) > 1:
                    return {(k, x, tkey(t[2])) for x in r}
                r = self.rec(vn, t[2])
                if not r:
                    return set()
                if len(r) > 1:
                    return {(k, tkey(t[1]), x) for x in r}
            return {tkey(t)}
        if k == 'opt':
            return self.rec_union(node, [t[1], 'none'])
        if k == 'union':
            return self.rec_union(node, t[1:])
        if k == 'cls':
            if t[1] not in self.m.cspecs:
                raise _Unspec('unknown class in type')
            if not self.registered(t[1]):
                raise _Unspec('annotation names an unregistered class')
            return self.candidates(node, t[1])
        raise ValueError(t)

    def rec_union(self, node, members):
        out = set()
        for mt in members:
            if mt in ('any', 'untyped'):
                raise _Unspec('Any inside a Union')
            out |= self.rec(node, mt)
        if 'bool' in out and 'buf' in out:
            out.discard('buf')
        return out

    def check_keys(self, node):
        """Duplicate and merge keys: not covered by the statement."""
        seen = set()
        for kn, _ in node.value:
            if isinstance(kn, yaml.ScalarNode):
                if kn.tag == S.TAG_MERGE:
                    raise _Unspec('merge key')
                if kn.value in seen:
                    raise _Unspec('duplicate key')
                seen.add(kn.value)

    def is_abstract(self, name):
        return self.m.is_abstract(name)

    def candidates(self, node, name):
        """Most-derived registered concrete classes below `name` that match,
        after tag disambiguation / tag conflicts."""
        found = set()
        for s in self.direct_subclasses(name):
            found |= self.candidates(node, s)
        if not found and not self.is_abstract(name):
            if self.matches(node, name):
                found = {('cls', name)}
        if not found:
            return set()
        tag = node.tag
        if len(found) > 1:
            self.rule('class-ambiguous')
            if tag.startswith('!') and tag[1:] in self.m.cspecs and \
                    self.registered(tag[1:]) and ('cls', tag[1:]) in found:
                self.rule('class-ambiguity-resolved-by-tag')
                return {('cls', tag[1:])}
            return found
        if not tag.startswith(CORE):
            if self.kind(name) in ('enum', 'str', 'userstring', 'stringlike'):
                raise _Unspec('explicit tag on an enum/string-like scalar')
            if tag.startswith('!') and tag[1:] in self.m.cspecs and \
                    self.registered(tag[1:]):
                if ('cls', tag[1:]) not in found:
                    self.rule('tag-conflict')
                    return set()
                self.rule('tag-agrees')
            else:
                self.rule('tag-unknown')
                return set()
        elif isinstance(node, yaml.MappingNode) and tag != S.TAG_MAP or \
                isinstance(node, yaml.SequenceNode) and tag != S.TAG_SEQ:
            raise _Unspec('core tag disagreeing with the node kind')
        return found

    def matches(self, node, name):
        c = self.m.cspecs[name]
        if c.get('recognize') is not None:
            self.rule('custom-recognizer')
            return self.eval_rule(node, c['recognize'])
        kind = self.kind(name)
        if kind == 'enum':
            return isinstance(node, yaml.ScalarNode) and node.tag in (
                S.TAG_STR, S.TAG_BOOL)
        if kind in ('str', 'userstring', 'stringlike'):
            return isinstance(node, yaml.ScalarNode) and node.tag == S.TAG_STR
        if not isinstance(node, yaml.MappingNode):
            return False
        self.check_keys(node)
        for p in c.get('params', []):
            sub = self.find_attr(node, p['name'], dashed=True)
            if sub is None:
                if 'default' not in p:
                    return False
                continue
            if not self.rec(sub, p['type']):
                return False
        self.rule('auto-recognised')
        return True

    def find_attr(self, node, name, dashed=False):
        names = [name, name.replace('_', '-')] if dashed else [name]
        for nm in names:
            for kn, vn in node.value:
                if isinstance(kn, yaml.ScalarNode) and kn.value == nm:
                    if dashed and nm != name:
                        self.rule('dashed-key-recognised')
                    return vn
        return None

    def eval_rule(self, node, rule):
        k = rule[0]
        if k == 'any':
            return True
        if k == 'raise':
            return False
        if k == 'mapping':
            return isinstance(node, yaml.MappingNode)
        if k == 'scalar':
            if not isinstance(node, yaml.ScalarNode):
                return False
            if not rule[1]:
                return True
            return any(node.tag == TAG_OF.get(t) for t in rule[1])
        if k == 'all':
            return all(self.eval_rule(node, r) for r in rule[1:])
        if not isinstance(node, yaml.MappingNode):
            return False
        self.check_keys(node)
        for kn, _ in node.value:
            if isinstance(kn, yaml.ScalarNode) and kn.value == rule[1] \
                    and kn.tag != S.TAG_STR:
                # the docstrings of require_attribute* do not say whether a
                # key that spells the name but is not a string counts
                raise _Unspec('non-string key spelling an attribute name in '
                              'a recogniser')
        if k == 'attr':
            sub = self.find_attr(node, rule[1])
            if sub is None:
                return False
            if rule[2] is None:
                return True
            return bool(self.rec(sub, rule[2]))
        if k in ('attr_value', 'attr_value_not'):
            sub = self.find_attr(node, rule[1])
            want = M.dec(rule[2], self.m)
            if sub is None:
                return k == 'attr_value_not'
            same = False
            if isinstance(sub, yaml.ScalarNode):
                wt = {str: S.TAG_STR, int: S.TAG_INT, float: S.TAG_FLOAT,
                      bool: S.TAG_BOOL, type(None): S.TAG_NULL}[type(want)]
                if sub.tag == wt:
                    try:
                        same = construct_scalar(sub) == want
                    except _Fail:
                        raise _Unspec('scalar PyYAML cannot construct in a '
                                      'recogniser')
            return same if k == 'attr_value' else not same
        raise ValueError(rule)

    # -- processing ------------------------------------------------------------------
    def process(self, node, t):
        """Value of the node at a position of declared type t (constructs)."""
        r = self.rec(node, t)
        if len(r) == 0:
            raise _Fail('not recognised as %r' % (t,))
        if len(r) > 1:
            self.rule('ambiguous-rejected')
            raise _Fail('ambiguous: %r' % (sorted(map(repr, r)),))
        rt = next(iter(r))
        if rt == 'any':
            self.rule('any-position')
            return self.plain(node)
        if rt == 'path':
            import pathlib
            self.rule('path')
            return pathlib.Path(node.value)
        if isinstance(rt, str):
            self.rule('scalar-' + rt)
            return construct_scalar(node)
        k = rt[0]
        if k in ('list', 'seq', 'mseq'):
            if node.tag != S.TAG_SEQ:
                self.rule('sequence-with-other-tag-rejected')
                raise _Fail('sequence tagged %s at a list position' % node.tag)
            self.rule('list')
            out, failed = [], None
            for x in node.value:
                # keep going after a failure: every constructible sub-object
                # is built (C04 matches constructor calls against these)
                try:
                    out.append(self.process(x, untkey(rt[1])))
                except _Fail as e:
                    failed = failed or e
            if failed is not None:
                raise failed
            return out
        if k in ('dict', 'map', 'mmap'):
            if node.tag != S.TAG_MAP:
                self.rule('mapping-with-other-tag-rejected')
                raise _Fail('mapping tagged %s at a dict position' % node.tag)
            self.rule('dict')
            out, failed = {}, None
            for kn, vn in node.value:
                key = val = None
                try:
                    key = self.process(kn, untkey(rt[1]))
                except _Fail as e:
                    failed = failed or e
                try:
                    val = self.process(vn, untkey(rt[2]))
                except _Fail as e:
                    failed = failed or e
                if failed is None:
                    out[key] = val
            if failed is not None:
                raise failed
            return out
        if k == 'cls':
            return self.construct_class(node, rt[1])
        raise ValueError(rt)

    def savorize(self, node, name):
        c = self.m.cspecs[name]
        for b in c.get('bases', []):
            if b in self.m.cspecs and self.registered(b):
                node = self.savorize(node, b)
        ops = c.get('savorize')
        if ops:
            self.rule('savorize')
            cnode = yatiml.Node(node)
            try:
                for op in ops:
                    M.apply_season(self.m, name, self.m.classes[name], op,
                                   cnode)
            except yatiml.SeasoningError as e:
                self.rule('savorize-raised-seasoning-error')
                raise _Fail('savorizer of %s raised SeasoningError' % name)
            except yatiml.RecognitionError:
                raise _Fail('savorizer of %s raised RecognitionError' % name)
            except Exception as e:
                # a helper of the menu failed in a way the protocol does not
                # provide for (C08/C15 judge that); no reference outcome
                raise _Unspec('menu savorizer raised %s' % type(e).__name__)
            node = cnode.yaml_node
        return node

    def construct_class(self, node, name):
        kind = self.kind(name)
        c = self.m.cspecs[name]
        cls = self.m.classes[name]
        node = copy.deepcopy(node)
        if kind == 'enum':
            if node.tag == S.TAG_BOOL:
                node.tag = S.TAG_STR
                self.rule('enum-from-bool-word')
            node = self.savorize(node, name)
            if not isinstance(node, yaml.ScalarNode):
                raise _Fail('enum node is not a scalar')
            self.rule('enum')
            try:
                v = cls[node.value]
            except KeyError:
                self.rule('enum-unknown-member')
                raise _Fail('no member %r in %s' % (node.value, name))
            self.classes[name] += 1
            return v
        if kind in ('str', 'userstring', 'stringlike'):
            node = self.savorize(node, name)
            if not isinstance(node, yaml.ScalarNode):
                raise _Fail('string-like node is not a scalar')
            self.rule('string-like')
            try:
                v = cls(node.value)
            except Exception:
                self.rule('constructor-raised')
                raise _Fail('%s(%r) raised' % (name, node.value))
            self.classes[name] += 1
            return v
        node = self.savorize(node, name)
        if not isinstance(node, yaml.MappingNode):
            self.rule('class-node-not-a-mapping')
            raise _Fail('node for %s is not a mapping after savorizing' % name)
        self.check_keys(node)
        params = {p['name']: p for p in c.get('params', [])}
        failed = None
        kwargs = collections.OrderedDict()
        extras = collections.OrderedDict()
        for kn, vn in node.value:
            if not isinstance(kn, yaml.ScalarNode) or kn.tag != S.TAG_STR:
                self.rule('non-string-key-rejected')
                failed = failed or _Fail('key that is not a string in a %s '
                                         'mapping' % name)
                continue
            key = kn.value
            if key in params:
                try:
                    kwargs[key] = self.process(vn, params[key]['type'])
                except _Fail as e:
                    failed = failed or e
            elif c.get('extra'):
                # (also for a key that is called self or _yatiml_extra: it is
                # an unknown attribute like any other)
                self.rule('extra-attribute')
                try:
                    extras[key] = self.plain(vn)
                except _Fail as e:
                    failed = failed or e
            else:
                self.rule('unknown-attribute-rejected')
                failed = failed or _Fail('unknown attribute %r for %s' % (
                    key, name))
        for p in c.get('params', []):
            if p['name'] not in kwargs and 'default' not in p and \
                    not any(isinstance(kn, yaml.ScalarNode) and
                            kn.value == p['name'] for kn, _ in node.value):
                self.rule('missing-required-rejected')
                failed = failed or _Fail('missing attribute %r for %s' % (
                    p['name'], name))
            elif p['name'] not in kwargs and 'default' in p:
                self.rule('default-applied')
        if failed is not None:
            raise failed
        if c.get('extra'):
            kwargs['_yatiml_extra'] = extras
        self.rule('class-constructed')
        try:
            obj = cls(**kwargs)
        except Exception:
            self.rule('constructor-raised')
            raise _Fail('%s.__init__ raised' % name)
        self.classes[name] += 1
        return obj

    # -- plain data below Any / extra ----------------------------------------------------
    def plain(self, node):
        n = copy.deepcopy(node)
        self.strip(n, 0)
        try:
            ctor = yaml.constructor.SafeConstructor()
            v = ctor.construct_object(n, deep=True)
        except yaml.YAMLError as e:
            raise _Fail('PyYAML cannot construct the plain data', True)
        except (ValueError, KeyError, AttributeError, IndexError, TypeError,
                OverflowError):
            raise _Fail('invalid scalar below Any')
        except RecursionError:
            raise _Unspec('very deep plain data')
        return v

    def strip(self, n, depth):
        if depth > 100:
            raise _Unspec('very deep plain data')
        if isinstance(n, yaml.ScalarNode):
            if not n.tag.startswith(CORE):
                self.rule('foreign-tag-ignored-on-scalar')
                n.tag = S.ref_resolve_plain(n.value)
            if n.tag not in PLAIN_SCALAR_TAGS:
                raise _Unspec('scalar tagged %s below Any' % n.tag)
            return
        if isinstance(n, yaml.SequenceNode):
            if n.tag != S.TAG_SEQ:
                self.rule('tag-ignored-on-collection')
            n.tag = S.TAG_SEQ
            for x in n.value:
                self.strip(x, depth + 1)
            return
        if n.tag != S.TAG_MAP:
            self.rule('tag-ignored-on-collection')
        n.tag = S.TAG_MAP
        self.check_keys(n)
        for kn, vn in n.value:
            self.strip(kn, depth + 1)
            self.strip(vn, depth + 1)
            if isinstance(kn, yaml.ScalarNode) and kn.tag == S.TAG_MERGE:
                raise _Unspec('merge key')
            if not isinstance(kn, yaml.ScalarNode):
                raise _Unspec('complex key below Any')
        # keys that construct to equal values (1 and 1.0, true and True)
        if len({(kn.tag, kn.value) for kn, _ in n.value}) != len(n.value):
            raise _Unspec('duplicate key')


def untkey(t):
    if isinstance(t, tuple):
        return [untkey(x) for x in t]
    return t


def shared_nodes(node):
    """Does the composed graph reach some node object twice (aliases)?"""
    seen = set()
    stack = [node]
    while stack:
        n = stack.pop()
        if id(n) in seen:
            return True
        seen.add(id(n))
        if isinstance(n, yaml.SequenceNode):
            stack.extend(n.value)
        elif isinstance(n, yaml.MappingNode):
            for k, v in n.value:
                stack.append(k)
                stack.append(v)
    return False


def expand_aliases(node, ancestors, count):
    """Tree-shaped copy of a composed node graph."""
    count[0] += 1
    if count[0] > 200000:
        raise _Unspec('alias expansion too large for the reference')
    if isinstance(node, yaml.ScalarNode):
        return yaml.ScalarNode(node.tag, node.value, node.start_mark,
                               node.end_mark, style=node.style)
    if id(node) in ancestors:
        raise _Fail('self-referential alias')
    ancestors.add(id(node))
    try:
        if isinstance(node, yaml.SequenceNode):
            return yaml.SequenceNode(
                node.tag, [expand_aliases(x, ancestors, count)
                           for x in node.value],
                node.start_mark, node.end_mark, flow_style=node.flow_style)
        return yaml.MappingNode(
            node.tag, [(expand_aliases(k, ancestors, count),
                        expand_aliases(v, ancestors, count))
                       for k, v in node.value],
            node.start_mark, node.end_mark, flow_style=node.flow_style)
    finally:
        ancestors.discard(id(node))


def compose(text):
    ldr = RefLoader(text)
    try:
        return ldr.get_single_node()
    finally:
        ldr.dispose()


def ref_load(model, text, doc_type=None, rules=None):
    """-> Accept | Reject | Unspecified.  Calls the model's constructors."""
    t = doc_type if doc_type is not None else model.spec['doc_type']
    ref = Ref(model, rules)
    if isinstance(t, list) and t[0] == 'cls':
        ref.implicit = {t[1]}
    try:
        node = compose(text)
    except yaml.YAMLError:
        return Reject('not well-formed YAML', True)
    except RecursionError:
        return Unspecified('nesting too deep for the composer')
    except Exception as e:      # PyYAML bugs on hostile input
        return Unspecified('composer raised %s' % type(e).__name__)
    if node is None:
        mark = yaml.error.Mark('empty document', 0, 0, 0, None, 0)
        node = yaml.ScalarNode(S.TAG_NULL, '', mark, mark)
        ref.rule('empty-document')
    if shared_nodes(node):
        # an alias stands for a copy of the anchored node
        try:
            node = expand_aliases(node, set(), [0])
        except _Fail as e:
            return Reject(e.reason)
        except _Unspec as e:
            return Unspecified(str(e))
        ref.rule('aliases-expanded')
    try:
        ref.check_model()
        v = ref.process(node, t)
    except _Unspec as e:
        return Unspecified(str(e))
    except _Fail as e:
        return Reject(e.reason, e.yaml_level)
    except RecursionError:
        return Unspecified('recursion in the reference')
    return Accept(v, ref.classes)
