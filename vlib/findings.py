"""known_findings.json handling.

The file is committed and never written at run time.  Entries:

  {"status": "known", "property": "C18", "key": "<mechanism key or glob>",
   "what": "...", "witness": {...}}
  {"status": "fixed", "property": "C09", "commit": "<sha>", "what": "..."}

Only "known" entries suppress anything, and only a violation whose mechanism
key matches (fnmatch) the entry's key for the same property.
"""
import fnmatch
import json
import os

from vlib import env

PATH = os.path.join(env.VERIF, 'known_findings.json')


def load():
    try:
        with open(PATH) as f:
            data = json.load(f)
    except (OSError, ValueError):
        return []
    return data.get('findings', [])


def match(entries, prop, key):
    for e in entries:
        if e.get('status') != 'known' or e.get('property') != prop:
            continue
        if fnmatch.fnmatchcase(key, e['key']):
            return e
    return None
