"""Class models: JSON-able specs turned into real, self-instrumenting Python
classes by generating source and exec-ing it (so inspect.getfullargspec,
annotations and __dict__ membership are what yatiml sees for hand-written
code).

Type language (JSON):
  'str' 'int' 'float' 'bool' 'none' 'date' 'path' 'any' 'buf'
  ['list',T] ['seq',T] ['mseq',T]
  ['dict',K,V] ['map',K,V] ['mmap',K,V]      K = 'str' | ['cls', stringlike]
  ['union',T1,...]  ['opt',T]  ['cls',name]
  parameter annotation 'untyped' = no annotation at all

Class spec keys: name, kind (plain|enum|str|userstring|stringlike|dataclass),
bases, abc, abstractmethod, registered, params [{name,type,default?}], extra,
members, constraint, recognize, savorize, sweeten, init_raises,
attributes_hook, defaults_override, mixin_hooks.

Every generated method first appends an event to Model.events:
  (seq, thread, kind, defining_class, cls_argument, payload)
kind in init | recognize | savorize | sweeten | attributes | str.
"""
import collections
import datetime
import enum
import math
import pathlib
import threading
import typing

import yaml

import yatiml
from vlib import nodes as N
from vlib import plain
from vlib import scalars as S

SCALAR_T = ('str', 'int', 'float', 'bool', 'none', 'date', 'path', 'any',
            'buf')


# ---------------------------------------------------------------------------
# value encoding for defaults etc. (JSON-able <-> python)

def enc(v):
    if isinstance(v, bool) or v is None or isinstance(v, int):
        return v
    if isinstance(v, float):
        return {'$f': repr(v)}
    if isinstance(v, str):
        if plain.has_surrogate(v) or not v.isprintable():
            return {'$s': [ord(c) for c in v]}
        return v
    if isinstance(v, datetime.datetime):
        return {'$dt': v.isoformat()}
    if isinstance(v, datetime.date):
        return {'$d': v.isoformat()}
    if isinstance(v, pathlib.PurePath):
        return {'$p': str(v)}
    if isinstance(v, list):
        return [enc(x) for x in v]
    if isinstance(v, dict):
        return {'$m': [[enc(k), enc(x)] for k, x in v.items()]}
    if isinstance(v, Ref):
        return {'$ref': v.name, 'a': enc(v.arg)}
    raise TypeError(v)


class Ref:
    """Symbolic default: enum member / instance built at class-creation."""

    def __init__(self, name, arg):
        self.name = name
        self.arg = arg


def dec(v, model=None):
    if isinstance(v, dict):
        if '$f' in v:
            return float(v['$f'])
        if '$s' in v:
            return ''.join(chr(c) for c in v['$s'])
        if '$dt' in v:
            return datetime.datetime.fromisoformat(v['$dt'])
        if '$d' in v:
            return datetime.date.fromisoformat(v['$d'])
        if '$p' in v:
            return pathlib.Path(v['$p'])
        if '$m' in v:
            return {dec(k, model): dec(x, model) for k, x in v['$m']}
        if '$enum' in v:
            return model.classes[v['$enum']][v['member']]
        raise ValueError(v)
    if isinstance(v, list):
        return [dec(x, model) for x in v]
    return v


# ---------------------------------------------------------------------------

class InitRaised(Exception):
    """Custom exception type raised by generated constructors on demand."""


EXC_TYPES = {'ValueError': ValueError, 'KeyError': KeyError,
             'TypeError': TypeError, 'AttributeError': AttributeError,
             'IndexError': IndexError, 'RuntimeError': RuntimeError,
             'InitRaised': InitRaised, 'ZeroDivisionError': ZeroDivisionError,
             'AssertionError': AssertionError, 'OSError': OSError,
             'UnicodeError': UnicodeError, 'StopIteration': StopIteration}

WORDS = ['zero', 'one', 'two', 'three', 'four', 'five', 'six', 'seven',
         'eight', 'nine', 'ten']


class Model:
    def __init__(self, spec):
        self.spec = spec
        self.cspecs = collections.OrderedDict(
            (c['name'], c) for c in spec['classes'])
        self.events = []
        self._seq = 0
        self._lock = threading.Lock()
        self.fault = None           # (call index, exception name) injection
        self._user_calls = 0
        self.ns = {}
        self.classes = {}
        self._build()

    # -- events -------------------------------------------------------------
    def log(self, kind, defining, cls_arg, payload):
        with self._lock:
            self._seq += 1
            self.events.append((self._seq, threading.get_ident(), kind,
                                defining, cls_arg, payload))

    def reset(self):
        with self._lock:
            self.events = []
            self._seq = 0
            self._user_calls = 0

    def _maybe_fault(self, site):
        """Fault injection in user code: the i-th call into user code raises."""
        with self._lock:
            self._user_calls += 1
            n = self._user_calls
        f = self.fault
        if f is not None and f[0] == n and site in f[2]:
            raise EXC_TYPES[f[1]]('injected fault #%d in %s' % (n, site))

    # -- types ----------------------------------------------------------------
    def py_type(self, t):
        T = typing
        if isinstance(t, str):
            return {'str': str, 'int': int, 'float': float, 'bool': bool,
                    'none': type(None), 'date': datetime.date,
                    'path': pathlib.Path, 'any': T.Any,
                    'buf': yatiml.bool_union_fix}[t]
        k = t[0]
        if k == 'cls':
            return self.classes[t[1]]
        if k == 'list':
            return T.List[self.py_type(t[1])]
        if k == 'seq':
            return T.Sequence[self.py_type(t[1])]
        if k == 'mseq':
            return T.MutableSequence[self.py_type(t[1])]
        if k == 'dict':
            return T.Dict[self.py_type(t[1]), self.py_type(t[2])]
        if k == 'map':
            return T.Mapping[self.py_type(t[1]), self.py_type(t[2])]
        if k == 'mmap':
            return T.MutableMapping[self.py_type(t[1]), self.py_type(t[2])]
        if k == 'union':
            return T.Union[tuple(self.py_type(x) for x in t[1:])]
        if k == 'opt':
            return T.Optional[self.py_type(t[1])]
        raise ValueError(t)

    # -- class generation -------------------------------------------------------
    def _build(self):
        import abc
        import dataclasses
        ns = self.ns
        ns.update({'_RT': self, 'OrderedDict': collections.OrderedDict,
                   'Optional': typing.Optional, 'Any': typing.Any,
                   'enum': enum, 'abc': abc,
                   'UserString': collections.UserString, 'yatiml': yatiml,
                   'dataclasses': dataclasses, '_copy': __import__(
                       'copy').deepcopy})
        for c in self.spec['classes']:
            src = self._source(c)
            c['_source'] = src
            exec(compile(src, '<model:%s>' % c['name'], 'exec'), ns)
            self.classes[c['name']] = ns[c['name']]
            if c.get('py_name'):
                # the class as Python names it (two classes from different
                # modules may be called the same); the spec name stays the
                # handle inside the harness
                ns[c['name']].__name__ = c['py_name']
                ns[c['name']].__qualname__ = c['py_name']

    def _default_value(self, c, p):
        d = p['default']
        if isinstance(d, dict) and '$enum' in d:
            return self.classes[d['$enum']][d['member']]
        return dec(d, self)

    def _source(self, c):
        name = c['name']
        kind = c.get('kind', 'plain')
        ns = self.ns
        L = []
        hooks = []
        if c.get('recognize') is not None:
            hooks.append(
                '    @classmethod\n'
                '    def _yatiml_recognize(cls, node):\n'
                '        _RT.on_recognize(%r, cls, node)\n' % name)
        if c.get('savorize') is not None:
            hooks.append(
                '    @classmethod\n'
                '    def _yatiml_savorize(cls, node):\n'
                '        _RT.on_savorize(%r, cls, node)\n' % name)
        if c.get('sweeten') is not None:
            hooks.append(
                '    @classmethod\n'
                '    def _yatiml_sweeten(cls, node):\n'
                '        _RT.on_sweeten(%r, cls, node)\n' % name)
        if c.get('defaults_override'):
            ns['_DEFOVR_' + name] = {
                k: dec(v, self) for k, v in c['defaults_override'].items()}
            hooks.append('    _yatiml_defaults = _DEFOVR_%s\n' % name)

        if kind == 'enum':
            L.append('class %s(%senum.Enum):' % (
                name, 'str, ' if c.get('str_mixin') else ''))
            for i, m in enumerate(c['members']):
                L.append('    %s = %d' % (m, i + 1))
            # aliases: further names for members (same value)
            for alias, target in sorted((c.get('aliases') or {}).items()):
                L.append('    %s = %d' % (alias,
                                          c['members'].index(target) + 1))
            L.extend(h.rstrip('\n') for h in hooks)
            return '\n'.join(L) + '\n'
        if kind == 'str':
            L.append('class %s(str):' % name)
            L.append('    def __new__(cls, value=""):')
            L.append('        _RT.on_strinit(%r, cls, value)' % name)
            L.append('        return str.__new__(cls, value)')
            L.extend(h.rstrip('\n') for h in hooks)
            return '\n'.join(L) + '\n'
        if kind == 'userstring':
            L.append('class %s(UserString):' % name)
            L.append('    def __init__(self, seq):')
            L.append('        super().__init__(seq)')
            L.append('        _RT.on_strinit(%r, type(self), seq)' % name)
            L.extend(h.rstrip('\n') for h in hooks)
            return '\n'.join(L) + '\n'
        if kind == 'stringlike':
            L.append('class %s(yatiml.String):' % name)
            L.append('    def __init__(self, value: str) -> None:')
            L.append('        _RT.on_strinit(%r, type(self), value)' % name)
            L.append('        self._value = value')
            L.append('    def __str__(self):')
            L.append('        return self._value')
            L.append('    def __hash__(self):')
            L.append('        return hash(self._value)')
            L.append('    def __eq__(self, other):')
            L.append('        return type(other) is type(self) and '
                     'other._value == self._value')
            L.append('    def __repr__(self):')
            L.append('        return "%s(%%r)" %% (self._value,)' % name)
            L.extend(h.rstrip('\n') for h in hooks)
            return '\n'.join(L) + '\n'

        bases = list(c.get('bases', []))
        if c.get('abc'):
            bases.append('abc.ABC')
        if c.get('abstractmethod') and not c.get('abc'):
            # @abstractmethod only has an effect under ABCMeta
            bases.append('metaclass=abc.ABCMeta')
        head = 'class %s(%s):' % (name, ', '.join(bases)) if bases \
            else 'class %s:' % name
        params = c.get('params', [])
        if kind == 'dataclass':
            L.append('@dataclasses.dataclass')
            L.append(head)
            for p in params:
                tn = '_T_%s_%s' % (name, p['name'])
                ns[tn] = self.py_type(p['type'])
                if 'default' in p:
                    dn = '_D_%s_%s' % (name, p['name'])
                    ns[dn] = self._default_value(c, p)
                    if isinstance(ns[dn], (list, dict)):
                        L.append('    %s: %s = dataclasses.field('
                                 'default_factory=lambda: type(%s)(%s))' % (
                                     p['name'], tn, dn, dn))
                    else:
                        L.append('    %s: %s = %s' % (p['name'], tn, dn))
                else:
                    L.append('    %s: %s' % (p['name'], tn))
            if not params:
                L.append('    pass')
            L.append('    def __post_init__(self):')
            L.append('        _RT.on_init(%r, self, {%s}, store=False)' % (
                name, ', '.join('%r: self.%s' % (p['name'], p['name'])
                                for p in params)))
            L.extend(h.rstrip('\n') for h in hooks)
            return '\n'.join(L) + '\n'

        # plain class
        L.append(head)
        if c.get('inherit_init'):
            # same parameters as the (single) base, whose __init__ is used
            L.extend(h.rstrip('\n') for h in hooks)
            if not hooks:
                L.append('    pass')
            return '\n'.join(L) + '\n'
        sig = ['self']
        any_default = False
        for p in params:
            s = p['name']
            if p['type'] != 'untyped':
                tn = '_T_%s_%s' % (name, p['name'])
                ns[tn] = self.py_type(p['type'])
                s += ': ' + tn
            if 'default' in p:
                any_default = True
                dn = '_D_%s_%s' % (name, p['name'])
                ns[dn] = self._default_value(c, p)
                s += ' = ' + dn
            sig.append(s)
        if c.get('extra'):
            if any_default:
                sig.append('_yatiml_extra: Optional[OrderedDict] = None')
            else:
                sig.append('_yatiml_extra: OrderedDict')
        if c.get('kwonly'):
            # keyword-only parameters: no attributes as far as yatiml is
            # concerned (never passed, never dumped)
            sig.append('*')
            for kn in c['kwonly']:
                sig.append('%s: Any = None' % kn)
        L.append('    def __init__(%s) -> None:' % ', '.join(sig))
        if c.get('copy_args'):
            # a constructor that copies the containers it is handed: they
            # have to be complete when it is called
            for p in params:
                if isinstance(p['type'], list) and p['type'][0] in (
                        'list', 'seq', 'mseq', 'dict', 'map', 'mmap'):
                    L.append('        if isinstance(%s, (list, dict)):'
                             % p['name'])
                    L.append('            %s = %s.copy()' % (p['name'],
                                                             p['name']))
        # _yatiml_defaults (own or inherited): the constructor turns None
        # into that value, the documented use of the feature
        if any(x.get('defaults_override') for x in self.spec['classes']):
            # what the constructor was handed for those parameters, before
            # it converts (a caller that fills in the override itself for an
            # omitted parameter is told apart from one that leaves it out)
            L.append('        object.__setattr__(self, "_v_received", {%s})'
                     % ', '.join('%r: %s' % (p['name'], p['name'])
                                 for p in params
                                 if p.get('default', 0) is None))
            for p in params:
                if p.get('default', 0) is None:
                    # looked up on the object's own class: subclasses that
                    # inherit this __init__ may have their own dict
                    L.append('        if %s is None:' % p['name'])
                    L.append('            %s = _RT.override_for(type(self), '
                             '%r)' % (p['name'], p['name']))
        args = ', '.join('%r: %s' % (p['name'], p['name']) for p in params)
        if c.get('extra'):
            L.append('        if _yatiml_extra is None:')
            L.append('            _yatiml_extra = OrderedDict()')
            args += (', ' if args else '') + \
                "'_yatiml_extra': _yatiml_extra"
        L.append('        _RT.on_init(%r, self, {%s})' % (name, args))
        if c.get('abstractmethod'):
            L.append('    @abc.abstractmethod')
            L.append('    def _abstract_thing(self):')
            L.append('        pass')
        elif c.get('keep_abstract'):
            # stays abstract: inherits the unimplemented method
            pass
        elif any(self.cspecs.get(b, {}).get('abstractmethod')
                 for b in self._all_bases(c)):
            L.append('    def _abstract_thing(self):')
            L.append('        return 1')
        if c.get('attributes_hook'):
            L.append('    def _yatiml_attributes(self):')
            L.append('        return _RT.on_attributes(%r, self)' % name)
        L.extend(h.rstrip('\n') for h in hooks)
        return '\n'.join(L) + '\n'

    def override_for(self, cls, pname):
        import copy
        d = getattr(cls, '_yatiml_defaults', None)
        if d and pname in d:
            return copy.deepcopy(d[pname])
        return None

    def _effective_override(self, c):
        """defaults_override of the nearest class in the (single
        inheritance) chain that defines one."""
        seen = set()
        while c is not None and c['name'] not in seen:
            seen.add(c['name'])
            if c.get('defaults_override'):
                return c['defaults_override']
            bases = [b for b in c.get('bases', []) if b in self.cspecs]
            c = self.cspecs[bases[0]] if bases else None
        return {}

    def _all_bases(self, c):
        out = []
        todo = list(c.get('bases', []))
        while todo:
            b = todo.pop()
            if b in out:
                continue
            out.append(b)
            if b in self.cspecs:
                todo.extend(self.cspecs[b].get('bases', []))
        return out

    # -- runtime behaviour of generated methods ------------------------------
    def on_init(self, name, obj, args, store=True):
        c = self.cspecs[name]
        self.log('init', name, type(obj).__name__, dict(args))
        object.__setattr__(obj, '_v_args', dict(args))
        if store:
            if c.get('attributes_hook'):
                for k, v in args.items():
                    object.__setattr__(obj, '_p_' + k, v)
            else:
                for k, v in args.items():
                    object.__setattr__(obj, k, v)
        self._maybe_fault('init')
        ir = c.get('init_raises')
        if ir is not None:
            if ir[0] == 'always':
                raise EXC_TYPES[ir[1]]('constructor of %s refuses' % name)
            if ir[0] == 'if_param_eq' and ir[1] in args and plain.same(
                    args[ir[1]], dec(ir[2], self)):
                raise EXC_TYPES[ir[3]]('constructor of %s refuses %r' % (
                    name, args[ir[1]]))

    def on_strinit(self, name, cls, value):
        c = self.cspecs[name]
        self.log('init', name, cls.__name__, {'value': value})
        self._maybe_fault('strinit')
        con = c.get('constraint')
        if con == 'starts_a' and not str(value).startswith('a'):
            raise ValueError('%s must start with an a' % name)
        if con == 'nonempty' and not str(value):
            raise ValueError('%s must not be empty' % name)
        if con == 'upper' and (str(value) != str(value).upper() or any(
                ord(ch) > 127 for ch in str(value))):
            raise ValueError('%s must be ASCII upper case' % name)
        ir = c.get('init_raises')
        if ir is not None and ir[0] == 'always':
            raise EXC_TYPES[ir[1]]('constructor of %s refuses' % name)

    def on_attributes(self, name, obj):
        self.log('attributes', name, type(obj).__name__, None)
        c = self.cspecs[name]
        out = collections.OrderedDict()
        for p in c.get('params', []):
            val = getattr(obj, '_p_' + p['name'])
            if c.get('attributes_hook') == 'nondefault' and 'default' in p \
                    and plain.same(val, self._default_value(c, p)):
                continue        # only what differs from the defaults
            out[p['name']] = val
        if c.get('extra'):
            out.update(getattr(obj, '_p__yatiml_extra'))
        return out

    def on_recognize(self, name, cls, node):
        self.log('recognize', name, cls.__name__, N.view(node.yaml_node))
        self._maybe_fault('recognize')
        rule = self.cspecs[name]['recognize']
        apply_recognize(self, rule, node)

    def on_savorize(self, name, cls, node):
        self.log('savorize', name, cls.__name__, N.view(node.yaml_node))
        self._maybe_fault('savorize')
        for op in self.cspecs[name]['savorize']:
            apply_season(self, name, cls, op, node)

    def on_sweeten(self, name, cls, node):
        self.log('sweeten', name, cls.__name__, N.view(node.yaml_node))
        for op in self.cspecs[name]['sweeten']:
            apply_season(self, name, cls, op, node)

    # -- yatiml functions --------------------------------------------------------
    def registered(self, order=None):
        names = order or self.spec.get('order') or [
            c['name'] for c in self.spec['classes']
            if c.get('registered', True)]
        return [self.classes[n] for n in names
                if self.cspecs[n].get('registered', True)]

    def load_fn(self, doc_type=None, order=None, extra_classes=()):
        t = doc_type if doc_type is not None else self.spec['doc_type']
        return yatiml.load_function(
            self.py_type(t), *(self.registered(order) + list(extra_classes)))

    def dumps_fn(self, order=None):
        return yatiml.dumps_function(*self.registered(order))

    def dump_fn(self, order=None):
        return yatiml.dump_function(*self.registered(order))

    def dumps_json_fn(self, order=None):
        return yatiml.dumps_json_function(*self.registered(order))

    def dump_json_fn(self, order=None):
        return yatiml.dump_json_function(*self.registered(order))

    # -- introspection helpers for oracles ------------------------------------------
    def is_abstract(self, name):
        c = self.cspecs[name]
        if c.get('abc') or c.get('abstractmethod') or c.get('keep_abstract'):
            return True
        return False

    def kind(self, name):
        return self.cspecs[name].get('kind', 'plain')

    def params(self, name):
        return self.cspecs[name].get('params', [])

    def is_registered(self, name):
        # load_function() registers the document type itself if it is a class
        dt = self.spec.get('doc_type')
        if isinstance(dt, list) and dt[0] == 'cls' and dt[1] == name:
            return True
        return self.cspecs[name].get('registered', True)

    def subclasses_direct(self, name):
        return [c['name'] for c in self.spec['classes']
                if name in c.get('bases', [])]

    def descendants(self, name):
        out = []
        for s in self.subclasses_direct(name):
            out.append(s)
            out.extend(self.descendants(s))
        return out


# ---------------------------------------------------------------------------
# hook menus (the implementation side, written with the public Node API)

def apply_recognize(model, rule, node):
    k = rule[0]
    if k == 'any':
        return
    if k == 'mapping':
        node.require_mapping()
    elif k == 'scalar':
        node.require_scalar(*[model.py_type(t) if t != 'none' else None
                              for t in rule[1]])
    elif k == 'attr_value':
        node.require_attribute_value(rule[1], dec(rule[2], model))
    elif k == 'attr_value_not':
        node.require_attribute_value_not(rule[1], dec(rule[2], model))
    elif k == 'attr':
        if rule[2] is None:
            node.require_attribute(rule[1])
        else:
            node.require_attribute(rule[1], model.py_type(rule[2]))
    elif k == 'all':
        for r in rule[1:]:
            apply_recognize(model, r, node)
    elif k == 'raise':
        raise yatiml.RecognitionError('recogniser of the model refuses')
    else:
        raise ValueError(rule)


def apply_season(model, name, cls, op, node):
    k = op[0]
    if k == 'record':
        # a hook that only looks: every documented query helper with every
        # documented type argument (read-only; whatever they raise besides
        # SeasoningError is theirs to answer for)
        if node.is_mapping():
            for kn, _ in list(node.yaml_node.value):
                if isinstance(kn, yaml.ScalarNode) and \
                        kn.tag == 'tag:yaml.org,2002:str':
                    node.has_attribute(kn.value)
                    for t in (str, int, float, bool, None, list, dict):
                        node.has_attribute_type(kn.value, t)
        else:
            for t in (str, int, float, bool, None):
                node.is_scalar(t)
            node.is_sequence()
        return
    if k == 'dashes_to_unders':
        if node.is_mapping():
            node.dashes_to_unders_in_keys()
    elif k == 'unders_to_dashes':
        if node.is_mapping():
            node.unders_to_dashes_in_keys()
    elif k == 'map_to_seq':
        if node.is_mapping():
            node.map_attribute_to_seq(op[1], op[2], op[3])
    elif k == 'seq_to_map':
        if node.is_mapping():
            node.seq_attribute_to_map(op[1], op[2], op[3], True)
    elif k == 'map_to_index':
        if node.is_mapping():
            node.map_attribute_to_index(op[1], op[2], op[3])
    elif k == 'index_to_map':
        if node.is_mapping():
            node.index_attribute_to_map(op[1], op[2], op[3])
    elif k == 'enum_upper':
        if node.is_scalar(str):
            node.set_value(str(node.get_value()).upper())
    elif k == 'enum_lower':
        if node.is_scalar(str):
            node.set_value(str(node.get_value()).lower())
    elif k == 'attrs_to_seq':
        # the object is written as the sequence of its attribute values
        if node.is_mapping():
            yn = node.yaml_node
            node.yaml_node = yaml.SequenceNode(
                'tag:yaml.org,2002:seq', [v for _, v in yn.value],
                yn.start_mark, yn.end_mark)
    elif k == 'set_scalar':
        # the object is written as one fixed scalar (op[1]: an encoded
        # str/int/float/bool/None)
        node.set_value(dec(op[1], None))
    elif k == 'word_to_int':
        if node.is_mapping() and node.has_attribute_type(op[1], str):
            w = node.get_attribute(op[1]).get_value()
            if w in WORDS:
                node.set_attribute(op[1], WORDS.index(w))
            else:
                raise yatiml.SeasoningError('unknown number word %r' % (w,))
    elif k == 'int_to_word':
        if node.is_mapping() and node.has_attribute_type(op[1], int):
            i = node.get_attribute(op[1]).get_value()
            if 0 <= i < len(WORDS):
                node.set_attribute(op[1], WORDS[i])
    elif k == 'add_int':
        # not idempotent on purpose: applying it twice shows
        if node.is_mapping() and node.has_attribute_type(op[1], int):
            node.set_attribute(
                op[1], node.get_attribute(op[1]).get_value() + op[2])
    elif k == 'push_down':
        # the owner hands a value down to its items, in place, through the
        # public helpers: [_, list attribute, item attribute, owner
        # attribute that holds the value, fallback value]
        if node.is_mapping() and node.has_attribute_type(op[1], list):
            val = dec(op[4], model)
            if node.has_attribute_type(op[3], str):
                val = node.get_attribute(op[3]).get_value()
            for item in node.get_attribute(op[1]).seq_items():
                if item.is_mapping() and not item.has_attribute(op[2]):
                    item.set_attribute(op[2], val)
    elif k == 'remove_attr':
        if node.is_mapping():
            node.remove_attribute(op[1])
    elif k == 'set_attr':
        if node.is_mapping():
            node.set_attribute(op[1], dec(op[2], model))
    elif k == 'rename':
        if node.is_mapping():
            node.rename_attribute(op[1], op[2])
    elif k == 'remove_defaults':
        if node.is_mapping():
            node.remove_attributes_with_default_values(cls)
    elif k == 'scalar_to_mapping':
        # "parsed class": 'a|b' -> {p0: a, p1: b}
        if node.is_scalar(str):
            parts = str(node.get_value()).split(op[2])
            node.make_mapping()
            for pname, part in zip(op[1], parts):
                node.set_attribute(pname, part)
    elif k == 'scalar_to_mapping_typed':
        # "parsed class" with typed fields: '12|red' -> {p0: 12, p1: red}
        if node.is_scalar(str):
            parts = str(node.get_value()).split(op[2])
            if len(parts) != len(op[1]):
                raise yatiml.SeasoningError(
                    'expected %d fields separated by %r' % (len(op[1]), op[2]))
            vals = []
            for (pname, kind), part in zip(op[1], parts):
                if kind == 'int':
                    try:
                        vals.append(int(part))
                    except ValueError:
                        raise yatiml.SeasoningError(
                            'field %s is not an integer' % pname)
                else:
                    vals.append(part)
            node.make_mapping()
            for (pname, kind), val in zip(op[1], vals):
                node.set_attribute(pname, val)
    elif k == 'mapping_to_scalar':
        if node.is_mapping() and all(node.has_attribute(p) for p in op[1]):
            parts = [str(node.get_attribute(p).get_value()) for p in op[1]]
            node.set_value(op[2].join(parts))
    elif k == 'raise_seasoning_bare':
        raise yatiml.SeasoningError()
    elif k == 'raise_seasoning':
        raise yatiml.SeasoningError('savorizer of %s refuses' % name)
    # --- sabotage (C01/C04/C08): deliberately produce wrong nodes ---------------
    elif k == 'sab_wrong_kind':
        if node.is_mapping() and node.has_attribute(op[1]):
            node.set_attribute(op[1], N.mk(op[2]))
    elif k == 'sab_drop':
        if node.is_mapping():
            node.remove_attribute(op[1])
    elif k == 'sab_add_unknown':
        if node.is_mapping():
            node.set_attribute('verif_unknown_key', 1)
    elif k == 'sab_nonstring_key':
        if node.is_mapping():
            node.yaml_node.value.append((N.mk(N.s_int(5)), N.mk(N.s_int(6))))
    elif k == 'sab_scalar':
        node.yaml_node = N.mk(N.s_str('sabotaged'))
    elif k == 'sab_sequence':
        node.yaml_node = N.mk(['seq', [N.s_int(1)]])
    elif k == 'sab_tag':
        node.yaml_node.tag = op[1]
    elif k == 'sab_subtag':
        if node.is_mapping() and node.has_attribute(op[1]):
            node.get_attribute(op[1]).yaml_node.tag = op[2]
    else:
        raise ValueError(op)
