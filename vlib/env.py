"""Environment bootstrap shared by every check.

Everything is checkout-relative.  The repository under test is VERIF_REPO
(default /repo); it is put first on sys.path and we assert that the yatiml
that got imported really lives there, so a check always runs the current
working tree.
"""
import os
import sys

VERIF = os.path.dirname(os.path.dirname(os.path.abspath(__file__)))
REPO = os.path.abspath(os.environ.get('VERIF_REPO', '/repo'))
PYTHON = '/venv/bin/python' if os.path.exists('/venv/bin/python') \
    else sys.executable
GUARD = 'YATIML_VERIF'

CHILD_ENV = {
    'PYTHONHASHSEED': '0',
    'PYTHONUTF8': '1',
    'PYTHONDONTWRITEBYTECODE': '1',
    'PYTHONIOENCODING': 'utf-8',
    GUARD: '1',
}


def child_env():
    env = dict(os.environ)
    env.update(CHILD_ENV)
    env['VERIF_REPO'] = REPO
    # make sure a stale PYTHONPATH cannot shadow the repository
    env['PYTHONPATH'] = REPO + os.pathsep + VERIF
    return env


_booted = False


def bootstrap():
    """Make `import yatiml` resolve to VERIF_REPO and verify it did."""
    global _booted
    if _booted:
        return
    sys.dont_write_bytecode = True
    for p in (VERIF, REPO):
        while p in sys.path:
            sys.path.remove(p)
    sys.path.insert(0, VERIF)
    sys.path.insert(0, REPO)
    import yatiml  # noqa
    f = os.path.abspath(yatiml.__file__)
    if not f.startswith(REPO + os.sep):
        raise RuntimeError(
            'yatiml imported from %s, not from %s' % (f, REPO))
    import logging
    # yatiml formats its log messages eagerly; keep handlers quiet
    logging.getLogger('yatiml').setLevel(logging.WARNING)
    _booted = True


def workdir(*parts):
    d = os.path.join(VERIF, '.work', *parts)
    os.makedirs(d, exist_ok=True)
    return d
