"""Plain data: adversarial scalar pools, ordered structural equality, digests,
a strict RFC 8259 validator.  No yatiml in here."""
import datetime
import math
import pathlib

# ---------------------------------------------------------------------------
# scalar pools

STR_LOOKALIKE = [
    '', ' ', '  ', 'a', 'abc', 'hello world', 'x y',
    # ints
    '0', '1', '-1', '+1', '007', '0o17', '0x1F', '0b101', '1_000', '12:30',
    '190:20:30',
    # floats 1.1 and 1.2 spellings
    '1.5', '1.', '.5', '1e5', '+1e3', '1E5', '-.5e-3', '1.5e+10', '1_000.5',
    '1:30.5', '.inf', '-.inf', '.Inf', '.INF', '.nan', '.NaN', '.NAN', '-.nan',
    '1e', '1.2.3', 'inf', 'nan', '1e400',
    # number look-alikes with digits that are no ASCII digits (Arabic-Indic,
    # fullwidth, Devanagari) behind an ASCII first character
    '1.\u0665', '1e\uff15', '-.\uff15', '.\u0665', '3\u0968.5', '2E-\uff13',
    '1\u0663', '+\u0661\u0662', '0x\uff11', 'true\u200b', 'tru\u0435',
    # bools 1.1 and 1.2
    'true', 'True', 'TRUE', 'false', 'False', 'FALSE', 'yes', 'Yes', 'YES',
    'no', 'No', 'NO', 'on', 'On', 'ON', 'off', 'Off', 'OFF', 'y', 'Y', 'n',
    'N', 'trueish', 'tRue',
    # nulls
    'null', 'Null', 'NULL', '~', 'nul',
    # dates
    '2001-12-14', '2001-12-14 21:59:43.10 -5', '2001-12-14t21:59:43.10-05:00',
    '2001-13-45', '2002-1-1',
    # merge / value
    '<<', '=',
    # yaml syntax
    '- a', '-', '- ', '-a', 'a: b', 'a:', ':', ': ', ':a', 'a :b', '# c',
    'a #b', 'a# b', '#', '&a', '&a b', '*a', '!t', '!!str', '!', '? a', '?',
    '|', '>', '|-', '>+', '[', ']', '[a]', '{', '}', '{a: b}', ',', 'a, b',
    '@a', '`a', '%a', '%YAML 1.2', '---', '--- a', '...', '"', "'", '"a"',
    "'a'", 'a"b', "a'b", '\\', 'a\\nb', '\\x41',
    # whitespace
    ' a', 'a ', ' a ', '\ta', 'a\t', 'a\tb', 'a  b',
    # multi-line
    'a\nb', 'a\n', '\na', '\n', 'a\n\nb', 'a\r\nb', 'a\rb', 'a\n b', 'a\n  b\n',
    'line1\nline2\nline3\n',
]
STR_UNICODE = [
    '\u00e9', '\u00df', '\u00f1and\u00fa', '\u65e5\u672c\u8a9e', '\u03a9mega',
    'a\u00a0b', '\u00a0', '\u0085', 'a\u0085b', '\u2028', 'a\u2028b',
    '\u2029', 'a\u2029',
    '\ufeff', 'a\ufeffb', '\ufffe', '\uffff', '\ufffd',
    '\U0001F600', 'a\U0001F600b', '\U00010000', '\U0010FFFF',
    '\x00', 'a\x00b', '\x01', '\x07', '\x08', '\x0b', '\x0c', '\x1b', '\x1f',
    '\x7f', 'a\x7fb', '\x80', '\x9f', '\x84', '\x86',
    '\u200b', '\u200e', '\u0301', 'e\u0301', '\u202e', '\u3000',
]
STR_SURROGATE = ['\ud800', '\udfff', 'a\udc80b', '\ud83d', '\ude00\ud83d']
STR_JSONY = ['"', '\\', '/', '\\"', '"\\', '\\u0041', '\\n', '</script>',
             '\b\f\n\r\t', '"quoted"', "it's", '{"a": 1}', '[1, 2]']

INTS = [0, 1, -1, 7, 42, -42, 10, 255, 1000, 2**31, -2**31, 2**63, 2**64 + 1,
        10**30, -10**30]
FLOATS = [0.0, -0.0, 1.0, -1.0, 1.5, -2.5, 0.1, 1e5, 1e16, 1e22, 1e-5, 1e-7,
          1.5e300, 5e-324, 2.2250738585072014e-308, 1.7976931348623157e308,
          123456789.123456789, 3.141592653589793, 1e15, 1e17, 100.0, 1e+16]
NONFINITE = [math.inf, -math.inf, math.nan]
DATES = [datetime.date(2001, 12, 14), datetime.date(1, 1, 1),
         datetime.date(9999, 12, 31), datetime.date(2020, 2, 29)]
DATETIMES = [datetime.datetime(2001, 12, 14, 21, 59, 43),
             datetime.datetime(2001, 12, 14, 21, 59, 43, 100000),
             datetime.datetime(2018, 10, 27),
             datetime.datetime(2001, 12, 14, 21, 59, 43,
                               tzinfo=datetime.timezone.utc),
             datetime.datetime(2001, 12, 14, 21, 59, 43, 10, tzinfo=(
                 datetime.timezone(datetime.timedelta(hours=-5)))),
             datetime.datetime(2001, 12, 14, 21, 59, 43, tzinfo=(
                 datetime.timezone(datetime.timedelta(hours=5, minutes=30)))),
             datetime.datetime(2001, 12, 14, 21, 59, 43, tzinfo=(
                 datetime.timezone(datetime.timedelta(hours=-3, minutes=-30)))),
             # local mean time (what zoneinfo gives for Europe/Amsterdam
             # before 1937): an offset that is no whole number of minutes
             datetime.datetime(1900, 1, 1, 12, 0, 0, tzinfo=(
                 datetime.timezone(datetime.timedelta(minutes=19,
                                                      seconds=32))))]


def is_printable_bmp(s):
    return all(ord(c) <= 0xFFFF for c in s) and s.isprintable()


def has_surrogate(s):
    return any(0xD800 <= ord(c) <= 0xDFFF for c in s)


def fix_surrogates(s):
    """A high surrogate directly followed by a low one is just another
    spelling of a non-BMP character in JSON/UTF-16; keep them apart so that
    lone surrogates stay lone."""
    out = []
    for c in s:
        if out and 0xD800 <= ord(out[-1]) <= 0xDBFF and \
                0xDC00 <= ord(c) <= 0xDFFF:
            out.append('_')
        out.append(c)
    return ''.join(out)


def rand_str(rng, classes=('look', 'uni', 'json'), maxlen=24):
    return fix_surrogates(_rand_str(rng, classes, maxlen))


def _rand_str(rng, classes=('look', 'uni', 'json'), maxlen=24):
    r = rng.random()
    pools = []
    if 'look' in classes:
        pools.append(STR_LOOKALIKE)
    if 'uni' in classes:
        pools.append(STR_UNICODE)
    if 'json' in classes:
        pools.append(STR_JSONY)
    if 'sur' in classes:
        pools.append(STR_SURROGATE)
    if r < 0.55:
        return rng.choice(rng.choice(pools))
    if r < 0.75:
        return rng.choice(rng.choice(pools)) + rng.choice(rng.choice(pools))
    if r < 0.9:
        n = rng.randint(1, maxlen)
        return ''.join(rng.choice(
            'abcxyzABC019 _-.:,#&*!|>\'"%@`{}[]?=~\\/\n\t') for _ in range(n))
    n = rng.randint(1, 8)
    out = []
    for _ in range(n):
        k = rng.random()
        if k < 0.5:
            out.append(chr(rng.randint(0x20, 0x7e)))
        elif k < 0.7:
            out.append(chr(rng.randint(0xa0, 0x2fff)))
        elif k < 0.8:
            out.append(chr(rng.randint(0, 0x1f)))
        elif k < 0.9 and 'sur' not in classes:
            out.append(chr(rng.randint(0x10000, 0x10ffff)))
        elif k < 0.9:
            out.append(chr(rng.randint(0xd800, 0xdfff)))
        else:
            out.append(chr(rng.randint(0xe000, 0xfffd)))
    return ''.join(out)


def rand_plain(rng, depth=3, classes=('look', 'uni', 'json'),
               finite=True, dates=False, keys='str'):
    """Random tree-shaped plain data."""
    r = rng.random()
    if depth <= 0 or r < 0.45:
        k = rng.random()
        if k < 0.35:
            return rand_str(rng, classes)
        if k < 0.5:
            return rng.choice(INTS)
        if k < 0.65:
            f = rng.choice(FLOATS if finite or rng.random() < 0.7
                           else NONFINITE)
            return f
        if k < 0.75:
            return rng.random() < 0.5
        if k < 0.85:
            return None
        if dates and k < 0.93:
            d = rng.choice(DATES + DATETIMES)
            # a fresh object each time: values must be tree-shaped
            return d.replace()
        return [] if rng.random() < 0.5 else {}
    if r < 0.72:
        return [rand_plain(rng, depth - 1, classes, finite, dates, keys)
                for _ in range(rng.randint(0, 4))]
    d = {}
    for _ in range(rng.randint(0, 4)):
        d[rand_str(rng, classes, 8)] = rand_plain(
            rng, depth - 1, classes, finite, dates, keys)
    return d


# ---------------------------------------------------------------------------
# ordered structural equality and digests

def same(a, b):
    """Structural equality: exact types, dict order, NaN==NaN, signed zero."""
    if type(a) is not type(b):
        # OrderedDict vs dict are both mappings of plain data
        if isinstance(a, dict) and isinstance(b, dict):
            pass
        else:
            return False
    if isinstance(a, float):
        if math.isnan(a) or math.isnan(b):
            return math.isnan(a) and math.isnan(b)
        return a == b and math.copysign(1, a) == math.copysign(1, b)
    if isinstance(a, dict):
        if len(a) != len(b):
            return False
        for (ka, va), (kb, vb) in zip(a.items(), b.items()):
            if not same(ka, kb) or not same(va, vb):
                return False
        return True
    if isinstance(a, (list, tuple)):
        return len(a) == len(b) and all(same(x, y) for x, y in zip(a, b))
    return a == b


def digest(v):
    """JSON-able canonical form of a plain value (order kept)."""
    if v is None or isinstance(v, (bool, int)):
        return [type(v).__name__, repr(v)]
    if isinstance(v, float):
        return ['float', 'nan' if math.isnan(v) else repr(v)]
    if isinstance(v, str):
        return ['str', v.encode('utf-8', 'surrogatepass').hex()
                if not v.isascii() or not v.isprintable() else v,
                type(v).__name__]
    if isinstance(v, bytes):
        return ['bytes', v.hex()]
    if isinstance(v, datetime.datetime):
        return ['datetime', v.isoformat()]
    if isinstance(v, datetime.date):
        return ['date', v.isoformat()]
    if isinstance(v, pathlib.PurePath):
        return ['path', str(v)]
    if isinstance(v, dict):
        return ['dict', [[digest(k), digest(x)] for k, x in v.items()]]
    if isinstance(v, (list, tuple)):
        return [type(v).__name__, [digest(x) for x in v]]
    if isinstance(v, (set, frozenset)):
        return ['set', sorted(repr(digest(x)) for x in v)]
    return ['other', type(v).__module__ + '.' + type(v).__qualname__]


def count_nodes(v):
    if isinstance(v, dict):
        return 1 + sum(1 + count_nodes(x) for x in v.values())
    if isinstance(v, (list, tuple)):
        return 1 + sum(count_nodes(x) for x in v)
    return 1


def walk_strings(v):
    if isinstance(v, str):
        yield v
    elif isinstance(v, dict):
        for k, x in v.items():
            yield from walk_strings(k)
            yield from walk_strings(x)
    elif isinstance(v, (list, tuple)):
        for x in v:
            yield from walk_strings(x)


# ---------------------------------------------------------------------------
# strict RFC 8259 validator (recursive descent, no regexes, no json module)

class JsonInvalid(Exception):
    pass


class JsonScan:
    """Validates one JSON text; records lexical facts the checks need."""

    WS = ' \t\n\r'

    def __init__(self, text):
        self.t = text
        self.i = 0
        self.ws_outside_strings = 0
        self.non_ascii = sum(1 for c in text if ord(c) > 127)
        self.escaped = []       # code units written as \uXXXX
        self.depth = 0

    def fail(self, msg):
        raise JsonInvalid('%s at offset %d: %r' % (
            msg, self.i, self.t[max(0, self.i - 10):self.i + 10]))

    def ws(self):
        while self.i < len(self.t) and self.t[self.i] in self.WS:
            self.i += 1
            self.ws_outside_strings += 1

    def validate(self, allow_trailing_ws=True):
        self.ws()
        self.value()
        self.ws()
        if self.i != len(self.t):
            self.fail('trailing data')
        return self

    def value(self):
        if self.i >= len(self.t):
            self.fail('unexpected end')
        c = self.t[self.i]
        if c == '{':
            self.obj()
        elif c == '[':
            self.arr()
        elif c == '"':
            self.string()
        elif c == '-' or c in '0123456789':
            self.number()
        elif self.t.startswith('true', self.i):
            self.i += 4
        elif self.t.startswith('false', self.i):
            self.i += 5
        elif self.t.startswith('null', self.i):
            self.i += 4
        else:
            self.fail('unexpected character')

    def obj(self):
        self.i += 1
        self.ws()
        if self.i < len(self.t) and self.t[self.i] == '}':
            self.i += 1
            return
        while True:
            self.ws()
            if self.i >= len(self.t) or self.t[self.i] != '"':
                self.fail('object key must be a string')
            self.string()
            self.ws()
            if self.i >= len(self.t) or self.t[self.i] != ':':
                self.fail('expected colon')
            self.i += 1
            self.ws()
            self.value()
            self.ws()
            if self.i >= len(self.t):
                self.fail('unterminated object')
            if self.t[self.i] == ',':
                self.i += 1
                continue
            if self.t[self.i] == '}':
                self.i += 1
                return
            self.fail('expected , or }')

    def arr(self):
        self.i += 1
        self.ws()
        if self.i < len(self.t) and self.t[self.i] == ']':
            self.i += 1
            return
        while True:
            self.ws()
            self.value()
            self.ws()
            if self.i >= len(self.t):
                self.fail('unterminated array')
            if self.t[self.i] == ',':
                self.i += 1
                continue
            if self.t[self.i] == ']':
                self.i += 1
                return
            self.fail('expected , or ]')

    def string(self):
        self.i += 1
        t = self.t
        while True:
            if self.i >= len(t):
                self.fail('unterminated string')
            c = t[self.i]
            if c == '"':
                self.i += 1
                return
            if ord(c) < 0x20:
                self.fail('raw control character in string')
            if c == '\\':
                self.i += 1
                if self.i >= len(t):
                    self.fail('dangling backslash')
                e = t[self.i]
                if e in '"\\/bfnrt':
                    self.i += 1
                elif e == 'u':
                    h = t[self.i + 1:self.i + 5]
                    if len(h) != 4 or any(
                            x not in '0123456789abcdefABCDEF' for x in h):
                        self.fail('bad \\u escape')
                    self.escaped.append(int(h, 16))
                    self.i += 5
                else:
                    self.fail('bad escape')
            else:
                self.i += 1

    def number(self):
        t = self.t
        if t[self.i] == '-':
            self.i += 1
        if self.i >= len(t):
            self.fail('bad number')
        if t[self.i] == '0':
            self.i += 1
        elif t[self.i] in '123456789':
            while self.i < len(t) and t[self.i] in '0123456789':
                self.i += 1
        else:
            self.fail('bad number')
        if self.i < len(t) and t[self.i] == '.':
            self.i += 1
            n = 0
            while self.i < len(t) and t[self.i] in '0123456789':
                self.i += 1
                n += 1
            if n == 0:
                self.fail('digits required after decimal point')
        if self.i < len(t) and t[self.i] in 'eE':
            self.i += 1
            if self.i < len(t) and t[self.i] in '+-':
                self.i += 1
            n = 0
            while self.i < len(t) and t[self.i] in '0123456789':
                self.i += 1
                n += 1
            if n == 0:
                self.fail('digits required in exponent')
