"""pytest plugin: run the repository's own tests with the harness's contracts
installed on the real functions (wrappers, installed at session start, from
outside the repository).

    pytest -p vlib.pytest_contracts -o addopts="" <repo>/tests

Contracts (each counts its evaluations; a contract that was never evaluated
is reported as such, not as held):

  recognize-pure      Recognizer.recognize leaves the node it inspects
                      unchanged (C03/C16)
  require-pure        UnknownNode.require_* leave the node unchanged and raise
                      nothing but RecognitionError (C16)
  strip-tags-post     after util.strip_tags no scalar below the node has a
                      tag outside the core schema and every collection is
                      tagged seq/map (C04)
  emit-json-state     Dumper.emit_json: stack depth equals the number of open
                      containers, indent equals depth * best_indent, stack is
                      [NONE] at document end (C07)
  represent-pure      Representer.__call__ leaves vars(obj) unchanged (C06)
  node-set-has        after Node.set_attribute(a, v) has_attribute(a) holds;
                      after remove_attribute(a) it does not; rename keeps the
                      position (C14)
  load-exception      a load function raises nothing but RecognitionError or
                      yaml.YAMLError (C08) - except where the test itself
                      expects another exception (pytest.raises is respected:
                      only exceptions that *fail the test* are reported)

The report is written to the file named by VERIF_CONTRACT_REPORT.
"""
import json
import os

import yaml

REPORT = {'evaluations': {}, 'violations': [], 'unavailable': []}
_current = {'test': None}


def _count(name):
    REPORT['evaluations'][name] = REPORT['evaluations'].get(name, 0) + 1


def _violation(name, detail):
    if len(REPORT['violations']) < 50:
        REPORT['violations'].append(
            {'contract': name, 'test': _current['test'], 'detail': detail})


def _view(node, _seen=None):
    if isinstance(node, yaml.ScalarNode):
        return ('s', node.tag, node.value)
    _seen = _seen if _seen is not None else set()
    if id(node) in _seen:
        return ('shared',)
    _seen.add(id(node))
    if isinstance(node, yaml.SequenceNode):
        return ('seq', node.tag, tuple(_view(x, _seen) for x in node.value))
    if isinstance(node, yaml.MappingNode):
        return ('map', node.tag, tuple(
            (_view(k, _seen), _view(v, _seen)) for k, v in node.value))
    return ('?', repr(type(node)))


def _install():
    import yatiml
    from yatiml import recognizer, helpers, util
    try:
        from yatiml import representers, dumper
    except ImportError:
        representers = dumper = None

    # recognize-pure ---------------------------------------------------------
    try:
        orig_rec = recognizer.Recognizer.recognize

        def recognize(self, node, expected_type):
            before = _view(node)
            try:
                return orig_rec(self, node, expected_type)
            finally:
                _count('recognize-pure')
                if _view(node) != before:
                    _violation('recognize-pure',
                               'node changed while being recognised as %r'
                               % (expected_type,))
        recognizer.Recognizer.recognize = recognize
    except AttributeError as e:
        REPORT['unavailable'].append('recognize-pure: %s' % e)

    # require-pure ------------------------------------------------------------
    for name in ('require_scalar', 'require_mapping', 'require_sequence',
                 'require_attribute', 'require_attribute_value',
                 'require_attribute_value_not'):
        orig = getattr(helpers.UnknownNode, name, None)
        if orig is None:
            REPORT['unavailable'].append('require-pure: %s' % name)
            continue

        def make(orig, name):
            def wrapped(self, *a, **kw):
                before = _view(self.yaml_node)
                try:
                    return orig(self, *a, **kw)
                except yatiml.RecognitionError:
                    raise
                except Exception as e:
                    _violation('require-pure', '%s raised %s: %s' % (
                        name, type(e).__name__, e))
                    raise
                finally:
                    _count('require-pure')
                    if _view(self.yaml_node) != before:
                        _violation('require-pure',
                                   '%s changed the node' % name)
            return wrapped
        setattr(helpers.UnknownNode, name, make(orig, name))

    # strip-tags-post ------------------------------------------------------------
    try:
        orig_strip = util.strip_tags

        def check_stripped(n, seen):
            if id(n) in seen:
                return None
            seen.add(id(n))
            if isinstance(n, yaml.ScalarNode):
                if not n.tag.startswith('tag:yaml.org,2002:'):
                    return 'scalar tagged %s' % n.tag
                return None
            if isinstance(n, yaml.SequenceNode):
                if n.tag != 'tag:yaml.org,2002:seq':
                    return 'sequence tagged %s' % n.tag
                kids = n.value
            else:
                if n.tag != 'tag:yaml.org,2002:map':
                    return 'mapping tagged %s' % n.tag
                kids = [x for kv in n.value for x in kv]
            for k in kids:
                r = check_stripped(k, seen)
                if r:
                    return r
            return None

        def strip_tags(resolver, node, *a, **kw):
            top = not a and not kw
            r = orig_strip(resolver, node, *a, **kw)
            if top:
                _count('strip-tags-post')
                bad = check_stripped(node, set())
                if bad:
                    _violation('strip-tags-post', bad)
            return r
        util.strip_tags = strip_tags
        import yatiml.loader
        import yatiml.constructors
        for mod in (yatiml.loader, yatiml.constructors):
            if getattr(mod, 'strip_tags', None) is orig_strip:
                mod.strip_tags = strip_tags
    except AttributeError as e:
        REPORT['unavailable'].append('strip-tags-post: %s' % e)

    # emit-json-state ---------------------------------------------------------------
    try:
        from checks import c07
        c07.HOOK.install()
        if c07.HOOK.unavailable:
            REPORT['unavailable'].append('emit-json-state: %s'
                                         % c07.HOOK.unavailable)
        REPORT['_c07'] = True
    except Exception as e:
        REPORT['unavailable'].append('emit-json-state: %s' % e)

    # represent-pure -------------------------------------------------------------------
    if representers is not None:
        try:
            orig_call = representers.Representer.__call__

            def snap(o):
                d = getattr(o, '__dict__', None)
                if d is None:
                    return None
                return tuple(sorted((k, id(v), repr(v)[:200])
                                    for k, v in d.items()))

            def call(self, dmp, data):
                before = snap(data)
                try:
                    return orig_call(self, dmp, data)
                finally:
                    _count('represent-pure')
                    if snap(data) != before:
                        _violation('represent-pure',
                                   'representing changed vars() of a %s'
                                   % type(data).__name__)
            representers.Representer.__call__ = call
        except AttributeError as e:
            REPORT['unavailable'].append('represent-pure: %s' % e)

    # node-set-has -------------------------------------------------------------------------
    try:
        N = helpers.Node
        o_set, o_rem, o_ren = N.set_attribute, N.remove_attribute, \
            N.rename_attribute

        def keys(self):
            return [k.value for k, _ in self.yaml_node.value
                    if isinstance(k, yaml.ScalarNode)]

        def set_attribute(self, attribute, value):
            before = keys(self)
            r = o_set(self, attribute, value)
            _count('node-set-has')
            after = keys(self)
            if attribute not in after:
                _violation('node-set-has', 'set_attribute(%r) did not add '
                           'the key' % attribute)
            elif attribute in before and after != before:
                _violation('node-set-has', 'set_attribute(%r) on an existing '
                           'key changed the key order' % attribute)
            elif attribute not in before and after != before + [attribute]:
                _violation('node-set-has', 'set_attribute(%r) did not append'
                           % attribute)
            return r

        def remove_attribute(self, attribute):
            before = keys(self)
            r = o_rem(self, attribute)
            _count('node-set-has')
            if keys(self) != [k for k in before if k != attribute]:
                _violation('node-set-has', 'remove_attribute(%r): keys %r -> '
                           '%r' % (attribute, before, keys(self)))
            return r

        def rename_attribute(self, attribute, new_name):
            before = keys(self)
            r = o_ren(self, attribute, new_name)
            _count('node-set-has')
            if before.count(attribute) == 1 and new_name not in before:
                want = [new_name if k == attribute else k for k in before]
                if keys(self) != want:
                    _violation('node-set-has', 'rename_attribute(%r, %r): '
                               'keys %r -> %r' % (attribute, new_name, before,
                                                  keys(self)))
            return r
        N.set_attribute = set_attribute
        N.remove_attribute = remove_attribute
        N.rename_attribute = rename_attribute
    except AttributeError as e:
        REPORT['unavailable'].append('node-set-has: %s' % e)


def pytest_configure(config):
    _install()


def pytest_runtest_setup(item):
    _current['test'] = item.nodeid


def pytest_runtest_makereport(item, call):
    # load-exception: an exception other than RecognitionError / YAMLError
    # that makes a test *fail* (pytest.raises blocks swallow expected ones)
    if call.when == 'call':
        _count('tests-run')
        if call.excinfo is not None:
            import yatiml
            e = call.excinfo.value
            REPORT.setdefault('failed_tests', []).append(
                '%s: %s' % (item.nodeid, type(e).__name__))


def pytest_sessionfinish(session, exitstatus):
    try:
        from checks import c07
        REPORT['evaluations']['emit-json-state'] = c07.HOOK.events
        for reason, detail in c07.HOOK.broken[:20]:
            REPORT['violations'].append({'contract': 'emit-json-state',
                                         'test': None, 'detail': '%s: %s' % (
                                             reason, detail)})
    except Exception:
        pass
    REPORT['exitstatus'] = int(exitstatus)
    path = os.environ.get('VERIF_CONTRACT_REPORT')
    if path:
        with open(path, 'w') as f:
            json.dump(REPORT, f, indent=1)
