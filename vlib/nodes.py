"""yaml.Node trees <-> JSON-able specs, plain views, raw composition.

spec:  ['s', tag, value]            scalar
       ['seq', [spec, ...], tag?]   sequence (tag defaults to !!seq)
       ['map', [[kspec, vspec], ...], tag?]
"""
import yaml
from yaml.error import Mark

from vlib import scalars as S

CORE = 'tag:yaml.org,2002:'


def _mark():
    return Mark('verif node', 0, 0, 0, None, 0)


def mk(spec):
    kind = spec[0]
    if kind == 's':
        return yaml.ScalarNode(spec[1], spec[2], _mark(), _mark())
    if kind == 'seq':
        tag = spec[2] if len(spec) > 2 else S.TAG_SEQ
        return yaml.SequenceNode(tag, [mk(x) for x in spec[1]],
                                 _mark(), _mark())
    if kind == 'map':
        tag = spec[2] if len(spec) > 2 else S.TAG_MAP
        return yaml.MappingNode(tag, [(mk(k), mk(v)) for k, v in spec[1]],
                                _mark(), _mark())
    raise ValueError(spec)


def view(node, _seen=None):
    """JSON-able structural view of a node graph (tags and values).

    Linear in the size of the graph: a collection node met a second time
    (alias, cycle) is written as ['shared', n], n being the order of first
    visit."""
    if isinstance(node, yaml.ScalarNode):
        return ['s', node.tag, node.value]
    if _seen is None:
        _seen = {}
    if id(node) in _seen:
        return ['shared', _seen[id(node)]]
    if isinstance(node, yaml.SequenceNode):
        _seen[id(node)] = len(_seen)
        if len(_seen) > 5000:
            return ['big']
        return ['seq', [view(x, _seen) for x in node.value], node.tag]
    if isinstance(node, yaml.MappingNode):
        _seen[id(node)] = len(_seen)
        if len(_seen) > 5000:
            return ['big']
        return ['map', [[view(k, _seen), view(v, _seen)]
                        for k, v in node.value], node.tag]
    return ['?', repr(type(node))]


def s_str(v):
    return ['s', S.TAG_STR, v]


def s_int(v):
    return ['s', S.TAG_INT, str(v)]


def s_float(v):
    return ['s', S.TAG_FLOAT, v if isinstance(v, str) else repr(v)]


def s_bool(v):
    return ['s', S.TAG_BOOL, v if isinstance(v, str) else (
        'true' if v else 'false')]


def s_null(v=''):
    return ['s', S.TAG_NULL, v]


def from_plain(v):
    """Plain python data -> spec (canonical spellings)."""
    if v is None:
        return s_null('null')
    if isinstance(v, bool):
        return s_bool(v)
    if isinstance(v, int):
        return s_int(v)
    if isinstance(v, float):
        return s_float(v)
    if isinstance(v, str):
        return s_str(v)
    if isinstance(v, list):
        return ['seq', [from_plain(x) for x in v]]
    if isinstance(v, dict):
        return ['map', [[from_plain(k), from_plain(x)] for k, x in v.items()]]
    raise TypeError(v)


def keys_of(spec):
    return [k[2] if k[0] == 's' else None for k, _ in spec[1]]


def compose_raw(loader_cls, text):
    """Compose text with a yatiml loader class WITHOUT yatiml's processing
    (its resolver table is used, get_single_node override is bypassed)."""
    ldr = loader_cls(text)
    try:
        return yaml.composer.Composer.get_single_node(ldr)
    finally:
        ldr.dispose()


def scalar_of(loader_cls, spelling):
    """ScalarNode as the loader's resolver tags the plain spelling."""
    ldr = loader_cls('')
    tag = ldr.resolve(yaml.ScalarNode, spelling, (True, False))
    return yaml.ScalarNode(tag, spelling, _mark(), _mark())
