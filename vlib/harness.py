"""Helpers shared by the model-based checks: model cache, outcomes, exception
sites, document features."""
import collections
import json
import os
import traceback

import yaml

import yatiml
from vlib import env
from vlib import models as M
from vlib import nodes as N
from vlib import scalars as S
from vlib import values as V

_cache = collections.OrderedDict()


def model_of(spec):
    """Model for a spec (cached: class generation costs ~1 ms per class)."""
    key = json.dumps(_strip(spec), sort_keys=True, default=repr)
    m = _cache.get(key)
    if m is None:
        m = M.Model(_strip(spec))
        _cache[key] = m
        if len(_cache) > 64:
            _cache.popitem(last=False)
    else:
        m.reset()
        m.fault = None
    return m


def _strip(spec):
    if any('_source' in c for c in spec['classes']):
        import copy
        spec = copy.deepcopy(spec)
        for c in spec['classes']:
            c.pop('_source', None)
    return spec


def clean_spec(spec):
    return _strip(spec)


ALLOWED = (yatiml.RecognitionError, yaml.YAMLError)


def run_load(load, text):
    """-> ('ok', value) | ('err', exception)"""
    try:
        return 'ok', load(text)
    except RecursionError as e:
        return 'err', e
    except Exception as e:      # noqa
        return 'err', e


def outcome_digest(kind, x):
    """Comparable digest of an outcome: value digest, or error class."""
    if kind == 'ok':
        return ['ok', V.vdigest(x)]
    if isinstance(x, yatiml.RecognitionError):
        return ['err', 'RecognitionError']
    if isinstance(x, yaml.YAMLError):
        return ['err', 'YAMLError']
    return ['err', type(x).__name__]


def fail_class(kind, x):
    """'ok' or 'fail' (all failures alike)."""
    return 'ok' if kind == 'ok' else 'fail'


def exc_site(exc):
    """Innermost yatiml or yaml function in the traceback: 'module.func'."""
    tb = exc.__traceback__
    site = None
    while tb is not None:
        fn = tb.tb_frame.f_code.co_filename
        name = tb.tb_frame.f_code.co_qualname if hasattr(
            tb.tb_frame.f_code, 'co_qualname') else tb.tb_frame.f_code.co_name
        if fn.startswith(os.path.join(env.REPO, 'yatiml')):
            site = 'yatiml.%s.%s' % (
                os.path.splitext(os.path.basename(fn))[0], name)
        elif os.sep + 'yaml' + os.sep in fn:
            site = 'yaml.%s.%s' % (
                os.path.splitext(os.path.basename(fn))[0], name)
        tb = tb.tb_next
    return site or 'outside'


def text_features(text):
    """Mechanism-level features of a document text (stock PyYAML compose)."""
    try:
        node = yaml.compose(text, Loader=yaml.SafeLoader)
    except yaml.YAMLError:
        return ['unparseable']
    except RecursionError:
        return ['deep-nesting']
    except Exception:
        return ['compose-crash']
    if node is None:
        return ['empty-document']
    feats = []
    seen = set()
    stack = set()

    def walk(n, depth):
        if depth > 200:
            feats.append('deep-nesting')
            return
        if isinstance(n, yaml.ScalarNode):
            if not n.tag.startswith(S.T):
                feats.append('foreign-tag-on-scalar')
            elif '!!' in text or '!<' in text:
                if n.style is None and S.ref_resolve_plain(n.value) != n.tag \
                        or n.style is not None and n.tag != S.TAG_STR:
                    feats.append('explicit-core-tag-on-scalar')
            return
        if id(n) in stack:
            feats.append('alias-cycle')
            return
        if id(n) in seen:
            feats.append('shared-collection')
            return
        seen.add(id(n))
        stack.add(id(n))
        if not n.tag.startswith(S.T):
            feats.append('foreign-tag-on-collection')
        elif n.tag not in (S.TAG_SEQ, S.TAG_MAP):
            feats.append('core-tag-on-collection')
        if isinstance(n, yaml.SequenceNode):
            for x in n.value:
                walk(x, depth + 1)
        else:
            keys = []
            for k, v in n.value:
                if isinstance(k, yaml.ScalarNode):
                    if k.tag == S.TAG_MERGE:
                        feats.append('merge-key')
                    elif k.tag != S.TAG_STR:
                        feats.append('nonstring-key')
                    keys.append(k.value)
                else:
                    feats.append('complex-key')
                walk(k, depth + 1)
                walk(v, depth + 1)
            if len(set(keys)) != len(keys):
                feats.append('duplicate-key')
        stack.discard(id(n))
    try:
        walk(node, 0)
    except RecursionError:
        feats.append('deep-nesting')
    if '*' in text and '&' in text and 'alias-cycle' not in feats:
        feats.append('alias')
    order = ['alias-cycle', 'deep-nesting', 'duplicate-key', 'complex-key',
             'merge-key', 'nonstring-key', 'explicit-core-tag-on-scalar',
             'core-tag-on-collection', 'foreign-tag-on-scalar',
             'foreign-tag-on-collection', 'shared-collection', 'alias']
    out = [f for f in order if f in feats]
    return out or ['plain-document']


def main_feature(text):
    return text_features(text)[0]


def model_features(spec):
    """Coarse features of a model spec (for mechanism keys)."""
    f = set()
    for c in spec['classes']:
        for op in (c.get('savorize') or []):
            if op[0].startswith('sab_') or op[0].startswith('raise_seasoning'):
                f.add('sabotaging-savorize')
        if c.get('recognize') and c['recognize'][0] in ('any', 'mapping',
                                                        'scalar'):
            f.add('permissive-recognize')
        if c.get('init_raises'):
            f.add('raising-init')
        if c.get('extra'):
            f.add('extra')
        if len(c.get('bases', [])) > 1:
            f.add('multiple-inheritance')
        if c.get('registered', True) is False:
            f.add('unregistered-class')
    return sorted(f)


def prior_partial_use(ctx, m, text, every=3):
    """History: the same class objects were used before by another load
    function that knows only some of them (leaf classes left out).  Whatever
    happens there must not matter for the function used afterwards.  Applied
    to every `every`-th document (decided by the text, so replays agree)."""
    import random
    import yatiml
    if (len(text) + text.count('a')) % every:
        return
    rng = random.Random(len(text))
    regd = m.registered()
    if len(regd) < 2:
        return
    leaves = [c for c in regd if not any(
        c is not d and issubclass(d, c) for d in regd)]
    if not leaves:
        return
    drop = set(rng.sample(leaves, rng.randint(1, len(leaves))))
    subset = [c for c in regd if c not in drop]
    try:
        part = yatiml.load_function(m.py_type(m.spec['doc_type']), *subset)
    except Exception:
        ctx.count('prior_partial_function_failed')
        return
    ctx.count('prior_partial_loads')
    events = len(m.events)
    try:
        part(text)
    except Exception:      # noqa: whatever it does is its own business
        pass
    del m.events[events:]
