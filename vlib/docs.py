"""Documents: projection of values, rendering of node specs to YAML text in
several styles (own emitter, independent of PyYAML's and of yatiml's
resolver), mutators towards the accept/reject boundary, token soup.

Spec extensions understood by the renderer:
  ['anchor', name, spec]   define &name on spec
  ['alias', name]          *name
"""
import collections
import copy
import datetime
import enum
import inspect
import math
import pathlib

import yaml

from vlib import models as M
from vlib import nodes as N
from vlib import plain
from vlib import scalars as S

CORE = 'tag:yaml.org,2002:'


# ---------------------------------------------------------------------------
# projection (oracle for dumps; source of valid documents)

def _registered_bases_first(model, cname, seen=None):
    """Classes whose hooks apply to an object of class cname, bases first
    (registered bases only, following __bases__ like the documentation says).
    """
    out = []
    c = model.cspecs[cname]
    for b in c.get('bases', []):
        if b in model.cspecs and model.is_registered(b):
            for x in _registered_bases_first(model, b):
                out.append(x)
    out.append(cname)
    return out


def sweeten_plain(model, cname, data):
    """Menu semantics of the class's sweeteners on plain data."""
    for k in _registered_bases_first(model, cname):
        ops = model.cspecs[k].get('sweeten')
        if not ops:
            continue
        for op in ops:
            data = _sweeten_op(model, k, op, data)
    return data


def _default_matches(v, d):
    """Model of 'value equals the default' for built-in scalars."""
    if v is None:
        return d is None
    if isinstance(v, bool):
        return isinstance(d, bool) and v is d
    if isinstance(v, (int, float)):
        if isinstance(d, bool) or not isinstance(d, (int, float)):
            return False
        return v == d
    if isinstance(v, str):
        return isinstance(d, str) and v == d
    if isinstance(v, (list, dict)):
        return len(v) == 0 and isinstance(d, type(v)) and len(d) == 0
    return False


def effective_defaults(model, cname):
    c = model.cspecs[cname]
    out = {}
    owner = cname       # the class whose __init__ is used
    while model.cspecs[owner].get('inherit_init'):
        owner = model.cspecs[owner]['bases'][0]
    for p in c.get('params', []):
        if 'default' in p:
            out[p['name']] = model.ns['_D_%s_%s' % (owner, p['name'])]
    # _yatiml_defaults is looked up with getattr(): the nearest class in the
    # MRO that defines it wins (as a whole)
    for klass in model.classes[cname].__mro__:
        kc = model.cspecs.get(klass.__name__)
        if kc is not None and kc.get('defaults_override'):
            for k, v in kc['defaults_override'].items():
                if k in out:
                    out[k] = M.dec(v, model)
            break
    return out


def _sweeten_op(model, cname, op, data):
    k = op[0]
    if k in ('record',):
        return data
    if k == 'unders_to_dashes' and isinstance(data, dict):
        return collections.OrderedDict(
            (key.replace('_', '-'), v) for key, v in data.items())
    if k == 'set_attr' and isinstance(data, dict):
        data = collections.OrderedDict(data)
        data[op[1]] = M.dec(op[2], model)
        return data
    if k == 'remove_defaults' and isinstance(data, dict):
        defs = effective_defaults(model, cname)
        return collections.OrderedDict(
            (key, v) for key, v in data.items()
            if not (key in defs and _default_matches(v, defs[key])))
    if k == 'add_int' and isinstance(data, dict):
        v = data.get(op[1])
        if type(v) is int:
            data = collections.OrderedDict(data)
            data[op[1]] = v + op[2]
        return data
    if k == 'int_to_word' and isinstance(data, dict):
        v = data.get(op[1])
        if type(v) is int and 0 <= v < len(M.WORDS):
            data = collections.OrderedDict(data)
            data[op[1]] = M.WORDS[v]
        return data
    if k == 'map_to_seq' and isinstance(data, dict):
        attr, key_attr, value_attr = op[1], op[2], op[3]
        items = data.get(attr)
        if not isinstance(items, dict):
            return data
        if value_attr is None and not all(
                isinstance(x, dict) for x in items.values()):
            return data
        new = []
        for key, x in items.items():
            if isinstance(x, dict):
                it = collections.OrderedDict(x)
            else:
                it = collections.OrderedDict([(value_attr, x)])
            it[key_attr] = key
            new.append(it)
        data = collections.OrderedDict(data)
        data[attr] = new
        return data
    if k in ('seq_to_map', 'index_to_map') and isinstance(data, dict):
        attr, key_attr, value_attr = op[1], op[2], op[3]
        items = data.get(attr)
        if k == 'seq_to_map':
            if not isinstance(items, list) or not all(
                    isinstance(x, dict) and key_attr in x for x in items):
                return data
            pairs = [(x[key_attr], x) for x in items]
        else:
            if not isinstance(items, dict) or not all(
                    isinstance(x, dict) for x in items.values()):
                return data
            pairs = list(items.items())
        new = collections.OrderedDict()
        for key, x in pairs:
            rest = collections.OrderedDict(
                (kk, vv) for kk, vv in x.items() if kk != key_attr)
            if value_attr is not None and list(rest.keys()) == [value_attr]:
                new[key] = rest[value_attr]
            else:
                new[key] = rest
        data = collections.OrderedDict(data)
        data[attr] = new
        return data
    if k == 'mapping_to_scalar' and isinstance(data, dict):
        if all(n in data for n in op[1]):
            return op[2].join(str(data[n]) for n in op[1])
        return data
    if k == 'enum_lower' and isinstance(data, str):
        return data.lower()
    if k == 'set_scalar':
        return M.dec(op[1], None)
    if k == 'attrs_to_seq' and isinstance(data, dict):
        return list(data.values())
    raise ValueError('no plain model for sweeten op %r' % (op,))


def proj(model, v, sweeten=True, _depth=0):
    """Projection of a value to plain data (YAML side)."""
    if _depth > 80:
        raise ValueError('too deep')
    if isinstance(v, enum.Enum):
        name = v.name
        cname = type(v).__name__
        if sweeten and cname in model.cspecs:
            name = sweeten_plain(model, cname, name)
        return name
    args = getattr(v, '_v_args', None)
    cname = type(v).__name__
    if args is not None and cname in model.cspecs:
        out = collections.OrderedDict()
        c = model.cspecs[cname]
        for p in c.get('params', []):
            if c.get('attributes_hook') == 'nondefault' and 'default' in p \
                    and plain.same(args[p['name']],
                                   model._default_value(c, p)):
                continue
            out[p['name']] = proj(model, args[p['name']], sweeten, _depth + 1)
        if '_yatiml_extra' in args:
            for k, x in args['_yatiml_extra'].items():
                out[k] = proj(model, x, sweeten, _depth + 1)
        if sweeten:
            out = sweeten_plain(model, cname, out)
        return out
    if cname in model.cspecs and model.kind(cname) in (
            'str', 'userstring', 'stringlike'):
        if sweeten:
            return sweeten_plain(model, cname, str(v))
        return str(v)
    if isinstance(v, pathlib.PurePath):
        return str(v)
    if isinstance(v, dict):
        return collections.OrderedDict(
            (proj(model, k, sweeten, _depth + 1),
             proj(model, x, sweeten, _depth + 1)) for k, x in v.items())
    if isinstance(v, (list, tuple)):
        return [proj(model, x, sweeten, _depth + 1) for x in v]
    return v


def jproj(data):
    """JSON projection of YAML-side plain data: dates become ISO strings."""
    if isinstance(data, datetime.datetime):
        return data.isoformat(' ')
    if isinstance(data, datetime.date):
        return data.isoformat()
    if isinstance(data, dict):
        return {jproj(k): jproj(v) for k, v in data.items()}
    if isinstance(data, list):
        return [jproj(v) for v in data]
    return data


# ---------------------------------------------------------------------------
# plain data -> spec (canonical spellings)

def float_spelling(f):
    if math.isnan(f):
        return '.nan'
    if math.isinf(f):
        return '.inf' if f > 0 else '-.inf'
    r = repr(f)
    if '.' not in r and 'e' in r:
        r = r.replace('e', '.0e')
    if 'e' not in r and '.' not in r:
        r += '.0'
    return r


def spec_of(data):
    if data is None:
        return N.s_null('null')
    if isinstance(data, bool):
        return N.s_bool(data)
    if isinstance(data, int):
        return N.s_int(data)
    if isinstance(data, float):
        return ['s', S.TAG_FLOAT, float_spelling(data)]
    if isinstance(data, str):
        return N.s_str(data)
    if isinstance(data, datetime.datetime):
        return ['s', S.TAG_TS, data.isoformat(' ')]
    if isinstance(data, datetime.date):
        return ['s', S.TAG_TS, data.isoformat()]
    if isinstance(data, bytes):
        import base64
        return ['s', CORE + 'binary', base64.b64encode(data).decode()]
    if isinstance(data, dict):
        return ['map', [[spec_of(k), spec_of(v)] for k, v in data.items()],
                S.TAG_MAP]
    if isinstance(data, (list, tuple)):
        return ['seq', [spec_of(v) for v in data], S.TAG_SEQ]
    raise TypeError(type(data))


# ---------------------------------------------------------------------------
# rendering

def _esc(s):
    out = ['"']
    for c in s:
        o = ord(c)
        if c == '"':
            out.append('\\"')
        elif c == '\\':
            out.append('\\\\')
        elif c == '\n':
            out.append('\\n')
        elif c == '\t':
            out.append('\\t')
        elif c == '\r':
            out.append('\\r')
        elif 0x20 <= o <= 0x7e:
            out.append(c)
        elif o <= 0xff:
            out.append('\\x%02x' % o)
        elif o <= 0xffff:
            out.append('\\u%04x' % o)
        else:
            out.append('\\U%08x' % o)
    out.append('"')
    return ''.join(out)


_SAFE_FIRST = set('abcdefghijklmnopqrstuvwxyzABCDEFGHIJKLMNOPQRSTUVWXYZ_/')
_SAFE_REST = _SAFE_FIRST | set('0123456789-. ')


def safe_plain(s):
    """Conservative: may this string be written as a plain scalar and be read
    back as the same *string* by any YAML 1.1/1.2 resolver?"""
    if not s or s[0] not in _SAFE_FIRST or s[-1] == ' ':
        return False
    if any(c not in _SAFE_REST for c in s):
        return False
    if '  ' in s or ' -' in s or '- ' in s:
        return False
    return not S.looks_special(s)


def tag_text(tag):
    if tag.startswith(CORE):
        return '!!' + tag[len(CORE):]
    if tag.startswith('!'):
        return tag
    return '!<%s>' % tag


class Renderer:
    def __init__(self, style='block', rng=None):
        self.style = style
        self.rng = rng

    def quote_str(self, s):
        st = self.style
        if st in ('json', 'dq'):
            return _esc(s)
        if st == 'sq' and all(0x20 <= ord(c) <= 0x7e for c in s):
            return "'" + s.replace("'", "''") + "'"
        if safe_plain(s) and st != 'canonical':
            return s
        return _esc(s)

    def scalar(self, spec):
        tag, val = spec[1], spec[2]
        if self.style == 'canonical':
            return '%s %s' % (tag_text(tag), _esc(val))
        if tag == S.TAG_STR:
            return self.quote_str(val)
        if tag.startswith(CORE) and isinstance(val, str):
            # non-string core scalar: plain iff that spelling resolves to it
            ok = all(0x21 <= ord(c) <= 0x7e or c == ' ' for c in val) \
                and val == val.strip() and not any(
                    x in val for x in (': ', ' #', '\n')) \
                and not (val[:1] in '-?:,[]{}#&*!|>\'"%@`' and
                         tag not in (S.TAG_INT, S.TAG_FLOAT)) \
                and not any(c in val for c in ',[]{}')
            if val == '' and tag == S.TAG_NULL:
                return '~' if self.style in ('flow', 'json') else ''
            if ok and S.ref_resolve_plain(val) == tag:
                return val
            return '%s %s' % (tag_text(tag), _esc(val))
        if self.style in ('block', 'flow') and val and all(
                c.isalnum() or c in '._+-' for c in val) and \
                val[0].isalnum() and val[-1].isalnum():
            # a foreign tag on a *plain* scalar (the other styles quote it):
            # same tag tree, different style
            return '%s %s' % (tag_text(tag), val)
        return '%s %s' % (tag_text(tag), _esc(val))

    def coll_tag(self, spec):
        """Explicit tag text for a collection, '' if default."""
        default = S.TAG_SEQ if spec[0] == 'seq' else S.TAG_MAP
        tag = spec[2] if len(spec) > 2 else default
        if tag == default and self.style != 'canonical':
            return ''
        return tag_text(tag)

    # flow ---------------------------------------------------------------------
    def flow(self, spec):
        k = spec[0]
        if k == 's':
            t = self.scalar(spec)
            return t if t != '' else '~'
        if k == 'alias':
            return '*' + spec[1]
        if k == 'anchor':
            inner = self.flow(spec[2])
            return '&%s %s' % (spec[1], inner)
        pre = self.coll_tag(spec)
        pre = pre + ' ' if pre else ''
        if k == 'seq':
            return pre + '[' + ', '.join(self.flow(x) for x in spec[1]) + ']'
        if k == 'map':
            parts = []
            for kk, vv in spec[1]:
                kt = self.flow(kk)
                if kk[0] not in ('s', 'alias') or len(kt) > 200 or \
                        kk[0] == 'alias':
                    parts.append('? %s : %s' % (kt, self.flow(vv)))
                else:
                    parts.append('%s: %s' % (kt, self.flow(vv)))
            return pre + '{' + ', '.join(parts) + '}'
        raise ValueError(spec)

    # block --------------------------------------------------------------------
    def is_inline(self, spec):
        k = spec[0]
        if k in ('s', 'alias'):
            return True
        if k == 'anchor':
            return self.is_inline(spec[2])
        return len(spec[1]) == 0

    def inline(self, spec):
        k = spec[0]
        if k == 'anchor':
            return '&%s %s' % (spec[1], self.inline(spec[2]))
        if k in ('seq', 'map'):
            pre = self.coll_tag(spec)
            return (pre + ' ' if pre else '') + ('[]' if k == 'seq' else '{}')
        return self.flow(spec) if k == 'alias' else self.scalar(spec)

    def block(self, spec, ind):
        """-> (header text to put after the parent's indicator, body lines)"""
        pad = ' ' * ind
        if self.is_inline(spec):
            return self.inline(spec), []
        props = ''
        while spec[0] == 'anchor':
            props += '&%s ' % spec[1]
            spec = spec[2]
        ct = self.coll_tag(spec)
        if ct:
            props += ct + ' '
        props = props.rstrip()
        lines = []
        if spec[0] == 'seq':
            for x in spec[1]:
                h, body = self.block(x, ind + 2)
                lines.append((pad + '- ' + h).rstrip() if h else pad + '-')
                lines.extend(body)
        else:
            for kk, vv in spec[1]:
                if kk[0] == 's' or (kk[0] == 'anchor' and kk[2][0] == 's'):
                    kt = self.inline(kk)
                    if kt == '':
                        kt = '~'
                    simple = len(kt) < 200 and '\n' not in kt
                else:
                    kt = self.flow(kk)
                    simple = False
                h, body = self.block(vv, ind + 2)
                if simple:
                    lines.append((pad + kt + ': ' + h).rstrip()
                                 if h else pad + kt + ':')
                else:
                    lines.append(pad + '? ' + kt)
                    lines.append((pad + ': ' + h).rstrip())
                lines.extend(body)
        return props, lines

    def render(self, spec):
        st = self.style
        if st in ('flow', 'json', 'canonical'):
            t = self.flow(spec)
            return ('--- ' + t + '\n') if st == 'canonical' else t + '\n'
        h, body = self.block(spec, 0)
        if body:
            if h:
                return '--- ' + h + '\n' + '\n'.join(body) + '\n'
            return '\n'.join(body) + '\n'
        if h == '':
            return '~\n'
        if h[:1] in '&!' or h.startswith('---'):
            return '--- ' + h + '\n'
        return h + '\n'


STYLES = ['block', 'flow', 'dq', 'sq', 'json', 'canonical']


def render(spec, style='block'):
    return Renderer(style).render(spec)


def expand_aliases(spec, table=None):
    """Replace every alias by a deep copy of its anchored spec."""
    table = {} if table is None else table
    k = spec[0]
    if k == 'anchor':
        inner = expand_aliases(spec[2], table)
        table[spec[1]] = inner
        return inner
    if k == 'alias':
        return copy.deepcopy(table[spec[1]])
    if k == 's':
        return list(spec)
    if k == 'seq':
        return ['seq', [expand_aliases(x, table) for x in spec[1]]] + spec[2:]
    if k == 'map':
        out = []
        for kk, vv in spec[1]:
            ek = expand_aliases(kk, table)
            ev = expand_aliases(vv, table)
            out.append([ek, ev])
        return ['map', out] + spec[2:]
    raise ValueError(spec)


# ---------------------------------------------------------------------------
# composing with a loader class, tag trees

class TooBig(Exception):
    pass


def tag_tree(node, _seen=None, _depth=0, _budget=None):
    """(kind, tag, value/children) tree of a composed node; aliases expanded;
    cycles cut; raises TooBig beyond 20000 nodes (alias bombs)."""
    if _budget is None:
        _budget = [20000]
    _budget[0] -= 1
    if _budget[0] < 0:
        raise TooBig()
    if _depth > 100:
        return ['deep']
    if isinstance(node, yaml.ScalarNode):
        return ['s', node.tag, node.value]
    _seen = _seen or ()
    if id(node) in _seen:
        return ['cycle']
    _seen = _seen + (id(node),)
    if isinstance(node, yaml.SequenceNode):
        return ['seq', [tag_tree(x, _seen, _depth + 1, _budget)
                        for x in node.value], node.tag]
    if isinstance(node, yaml.MappingNode):
        return ['map', [[tag_tree(k, _seen, _depth + 1, _budget),
                         tag_tree(v, _seen, _depth + 1, _budget)]
                        for k, v in node.value], node.tag]
    return ['?']


def compose_tree(loader_cls, text):
    """Tag tree as the given (yatiml) loader class composes text, or None."""
    try:
        node = N.compose_raw(loader_cls, text)
    except yaml.YAMLError:
        return None
    if node is None:
        return ['empty']
    try:
        return tag_tree(node)
    except TooBig:
        return ['too-big']


def spec_tree(spec):
    """Tag tree a spec denotes (anchors/aliases expanded, default tags)."""
    spec = expand_aliases(spec)

    def norm(s):
        if s[0] == 's':
            return ['s', s[1], s[2]]
        if s[0] == 'seq':
            return ['seq', [norm(x) for x in s[1]],
                    s[2] if len(s) > 2 else S.TAG_SEQ]
        return ['map', [[norm(k), norm(v)] for k, v in s[1]],
                s[2] if len(s) > 2 else S.TAG_MAP]
    return norm(spec)


# ---------------------------------------------------------------------------
# mutators on specs

TAG_POOL = ['!Unknown', '!', '!!python/object:verif_canary_mod.Canary',
            '!!python/object/apply:verif_canary_mod.boom',
            '!!python/object/new:verif_canary_mod.Canary',
            '!!python/name:verif_canary_mod.boom',
            '!!python/module:verif_canary_mod',
            '!!python/object/apply:os.system',
            '!!str', '!!int', '!!float', '!!bool', '!!null', '!!timestamp',
            '!!seq', '!!map', '!!set', '!!omap', '!!pairs', '!!binary',
            '!!merge', '!!value', '!!yaml', '!Path']


def full_tag(t):
    if t.startswith('!!'):
        return CORE + t[2:]
    return t


def paths(spec, p=()):
    """All node paths in a spec: tuple of steps ('i',n) | ('k',n) | ('v',n)."""
    yield p, spec
    if spec[0] == 'anchor':
        yield from paths(spec[2], p + (('a',),))
    elif spec[0] == 'seq':
        for i, x in enumerate(spec[1]):
            yield from paths(x, p + (('i', i),))
    elif spec[0] == 'map':
        for i, (k, v) in enumerate(spec[1]):
            yield from paths(k, p + (('k', i),))
            yield from paths(v, p + (('v', i),))


def get_at(spec, p):
    for step in p:
        if step[0] == 'a':
            spec = spec[2]
        elif step[0] == 'i':
            spec = spec[1][step[1]]
        elif step[0] == 'k':
            spec = spec[1][step[1]][0]
        else:
            spec = spec[1][step[1]][1]
    return spec


def set_at(spec, p, new):
    if not p:
        return new
    spec = copy.deepcopy(spec)
    cur = spec
    for step in p[:-1]:
        if step[0] == 'a':
            cur = cur[2]
        elif step[0] == 'i':
            cur = cur[1][step[1]]
        elif step[0] == 'k':
            cur = cur[1][step[1]][0]
        else:
            cur = cur[1][step[1]][1]
    step = p[-1]
    if step[0] == 'a':
        cur[2] = new
    elif step[0] == 'i':
        cur[1][step[1]] = new
    elif step[0] == 'k':
        cur[1][step[1]][0] = new
    else:
        cur[1][step[1]][1] = new
    return spec


SCALAR_SWAPS = [N.s_int(1), N.s_str('x'), N.s_float(1.5), N.s_bool(True),
                N.s_null(), ['s', S.TAG_TS, '2001-12-14'], N.s_str(''),
                N.s_str('1'), N.s_bool('false'), N.s_int(0), N.s_int(-3),
                ['s', S.TAG_FLOAT, '.inf'], ['s', S.TAG_FLOAT, '.nan'],
                N.s_str('true'), N.s_int('0x1F'), ['s', S.TAG_FLOAT, '1e5'],
                ['s', S.TAG_INT, 'abc'], ['s', S.TAG_INT, '0x_'],
                ['s', S.TAG_INT, ''], ['s', S.TAG_FLOAT, 'x'],
                ['s', S.TAG_BOOL, 'maybe'], ['s', S.TAG_TS, 'noon'],
                # words that name attributes every class / enum / str has
                N.s_str('mro'), N.s_str('__doc__'), N.s_str('__members__'),
                N.s_str('name'), N.s_str('value'), N.s_str('__class__'),
                N.s_str('_member_map_'), N.s_str('__init__'),
                N.s_str('__module__'), N.s_str('upper')]


def mutate(spec, rng, class_names=(), key_pool=()):
    """One random single-site mutation. -> (new spec, description)"""
    allp = list(paths(spec))
    p, node = rng.choice(allp)
    r = rng.random()
    if node[0] == 's' and r < 0.35:
        new = rng.choice(SCALAR_SWAPS)
        return set_at(spec, p, new), 'scalar-kind'
    if node[0] == 'map' and node[1] and r < 0.5:
        m = copy.deepcopy(node)
        i = rng.randrange(len(m[1]))
        c = rng.random()
        if c < 0.3:
            del m[1][i]
            what = 'drop-key'
        elif c < 0.45:
            dup = copy.deepcopy(m[1][i])
            if rng.random() < 0.6:
                # same key, another value: which occurrence counts?
                dup[1] = rng.choice(SCALAR_SWAPS)
            if dup[0][0] == 's' and '_' in dup[0][2] and rng.random() < 0.3:
                # the second occurrence in the dashed spelling: a duplicate
                # only for a class that reads dashes as underscores
                dup[0] = ['s', dup[0][1], dup[0][2].replace('_', '-')]
            if rng.random() < 0.5:
                m[1].append(dup)
            else:
                m[1].insert(rng.randint(0, len(m[1])), dup)
            what = 'duplicate-key'
        elif c < 0.65 and m[1][i][0][0] == 's':
            k = m[1][i][0][2]
            if '_' in k and rng.random() < 0.6:
                k2 = k.replace('_', '-', 1 if rng.random() < 0.5 else -1)
                what = 'dash-key'
            elif '-' in k:
                k2 = k.replace('-', '_')
                what = 'under-key'
            else:
                k2 = k[:-1] if len(k) > 1 else k + 'x'
                what = 'misspell-key'
            m[1][i][0] = ['s', m[1][i][0][1], k2]
        elif c < 0.85:
            nk = rng.choice(list(key_pool) or ['foreign_key'])
            m[1].insert(rng.randint(0, len(m[1])),
                        [N.s_str(nk), rng.choice(SCALAR_SWAPS)])
            what = 'add-key'
        else:
            rng.shuffle(m[1])
            what = 'shuffle-keys'
        return set_at(spec, p, m), what
    if r < 0.6:
        # inject a tag
        pool = TAG_POOL + ['!' + n for n in class_names]
        tag = full_tag(rng.choice(pool))
        n2 = copy.deepcopy(node)
        if n2[0] == 's':
            n2[1] = tag
        elif n2[0] in ('seq', 'map'):
            n2 = n2[:2] + [tag]
        else:
            return spec, 'none'
        return set_at(spec, p, n2), 'tag'
    if r < 0.75:
        if node[0] == 'map':
            new = ['seq', [v for _, v in node[1]], S.TAG_SEQ]
            return set_at(spec, p, new), 'map-to-seq'
        if node[0] == 'seq':
            new = ['map', [[N.s_str('k%d' % i), v]
                           for i, v in enumerate(node[1])], S.TAG_MAP]
            return set_at(spec, p, new), 'seq-to-map'
        new = rng.choice([['seq', [node], S.TAG_SEQ],
                          ['map', [[N.s_str('w'), node]], S.TAG_MAP]])
        return set_at(spec, p, new), 'wrap'
    if r < 0.85 and node[0] in ('seq', 'map'):
        return set_at(spec, p, rng.choice(SCALAR_SWAPS)), 'coll-to-scalar'
    if r < 0.92 and node[0] == 'map':
        m = copy.deepcopy(node)
        c = rng.random()
        if c < 0.4:
            m[1].append([['seq', [N.s_int(1), N.s_int(2)], S.TAG_SEQ],
                         N.s_str('complex')])
            what = 'complex-key'
        elif c < 0.7:
            # merged pairs never pass through the loader's own processing:
            # give them the names of real attributes and arbitrary scalars
            names = [rng.choice(list(key_pool) or ['merged_key'])
                     for _ in range(rng.randint(1, 2))]
            m[1].append([['s', S.TAG_MERGE, '<<'],
                         ['map', [[N.s_str(nm), rng.choice(SCALAR_SWAPS)]
                                  for nm in dict.fromkeys(names)],
                          S.TAG_MAP]])
            what = 'merge-key'
        else:
            m[1].append([rng.choice([N.s_int(5), N.s_null(), N.s_bool(True),
                                     N.s_float(1.5)]), N.s_str('nonstr')])
            what = 'nonstring-key'
        return set_at(spec, p, m), what
    new = rng.choice(SCALAR_SWAPS + [['seq', [], S.TAG_SEQ],
                                     ['map', [], S.TAG_MAP]])
    return set_at(spec, p, new), 'replace'


def share_equal_subnodes(spec, rng, prob=0.7):
    """Introduce anchors/aliases for equal sub-specs (C18). Returns a spec
    with anchor/alias nodes whose expansion equals the input."""
    counter = [0]
    seen = {}

    def key(s):
        return repr(s)

    # first pass: count equal subtrees
    counts = collections.Counter()
    for _, s in paths(spec):
        if s[0] in ('s', 'seq', 'map'):
            counts[key(s)] += 1
    chosen = {k for k, n in counts.items() if n > 1 and rng.random() < prob}

    def walk(s, in_key=False):
        if s[0] not in ('s', 'seq', 'map'):
            return s
        k = key(s)
        if k in chosen:
            if k in seen:
                return ['alias', seen[k]]
            counter[0] += 1
            name = 'a%d' % counter[0]
            # children first so that nested anchors are defined before use
            inner = descend(s)
            seen[k] = name
            return ['anchor', name, inner]
        return descend(s)

    def descend(s):
        if s[0] == 's':
            return list(s)
        if s[0] == 'seq':
            return ['seq', [walk(x) for x in s[1]]] + s[2:]
        return ['map', [[walk(kk, True), walk(vv)] for kk, vv in s[1]]] + s[2:]

    out = walk(spec)
    return out, counter[0]


def dup_int_as_bool(spec, rng):
    """Repeat one `key: <int>` entry of some mapping with a boolean value
    (bool passes isinstance(x, int)), the second time perhaps in the dashed
    spelling of the key: whichever occurrence counts, an int position must
    not end up holding a bool.  Returns the new spec or None."""
    cands = []
    for p, sub in paths(spec):
        if sub[0] != 'map':
            continue
        for i, (k, v) in enumerate(sub[1]):
            if k[0] == 's' and k[1] == S.TAG_STR and v[0] == 's' and \
                    v[1] == S.TAG_INT:
                cands.append((p, i))
    if not cands:
        return None
    p, i = rng.choice(cands)
    m = copy.deepcopy(get_at(spec, p))
    k, v = m[1][i]
    k2 = list(k)
    if '_' in k2[2] and rng.random() < 0.5:
        k2[2] = k2[2].replace('_', '-')
    dup = [k2, N.s_bool(rng.random() < 0.5)]
    if rng.random() < 0.5:
        m[1].append(dup)
    else:
        m[1].insert(rng.randint(0, len(m[1])), dup)
    return set_at(spec, p, m)


def alias_two_scalars(spec, rng):
    """Anchor one scalar value of a tree-shaped spec and put an alias to it
    where another scalar value stands (which thereby takes the first one's
    text and tag): one node object at two positions that the model may type
    differently.  Returns the new spec or None."""
    cands = [p for p, sub in paths(spec)
             if p and p[-1][0] != 'k' and sub[0] == 's']
    if len(cands) < 2:
        return None
    a, b = rng.sample(cands, 2)

    def order(path):
        return tuple((st[1], 0 if st[0] == 'k' else 1) for st in path)
    first, second = sorted([a, b], key=order)
    src = get_at(spec, a)
    out = set_at(spec, first, ['anchor', 'sc', list(src)])
    return set_at(out, second, ['alias', 'sc'])


def respell_ints(spec, rng, p=0.6):
    """The same tree with plain decimal int scalar *values* (not keys)
    written in another spelling PyYAML reads as the same number: leading
    zero (octal), 0x, 0b, underscores, sexagesimal, explicit plus.  Returns
    the new spec, or None if there was nothing to respell."""
    import re
    out = spec
    done = 0
    for path, sub in paths(spec):
        if not path or path[-1][0] == 'k' or sub[0] != 's':
            continue
        if sub[1] != 'tag:yaml.org,2002:int' or not re.fullmatch(
                r'-?[0-9]+', str(sub[2])) or rng.random() > p:
            continue
        v = int(sub[2])
        a = abs(v)
        forms = ['0x%X' % a, '0b' + bin(a)[2:], '+%d' % a if v >= 0 else None,
                 ('0%o' % a) if a else '00',
                 ('%d_%s' % (a // 10, a % 10)) if a >= 10 else '%d_' % a,
                 ('%d:%02d' % (a // 60, a % 60)) if a >= 60 else None]
        forms = [f for f in forms if f]
        text = rng.choice(forms)
        if v < 0 and not text.startswith('+'):
            text = '-' + text
        elif v < 0:
            continue
        out = set_at(out, path, ['s', sub[1], text] + list(sub[3:]))
        done += 1
    return out if done else None


# ---------------------------------------------------------------------------
# text-level hostile inputs

INDICATORS = ['- ', ': ', '? ', '# ', '&a ', '*a', '!t ', '!!str ', '| ', '> ',
              '[', ']', '{', '}', ',', '"', "'", '%', '@', '`', '---', '...',
              '\n', '\n  ', '\n- ', '\t', ' ', '<<: ', '= ', '~', 'a', 'b: ',
              '1', '1.5', 'true', '!!int ', '!!python/object:os.system ',
              '!<tag:yaml.org,2002:int> ', '&a [*a]', '*b', '\\', '\x00',
              '\u2028', '\ufeff', '\u0085', 'k: v', '- x', '{a: 1}', '[1, 2]',
              '? [a]\n: b\n', '!!binary ', '!!set ', '!!omap ', '|-\n  t',
              '>+\n t', '"\\x41"', '"\\', "'it''s'", '&x', '*x ', '%YAML 1.1\n',
              '%TAG ! tag:x,2000:\n', '--- ', '... ', '!!timestamp ',
              '2001-13-45', '0x_', '1:99', '.inf.', '1e', '!!float abc',
              '!!bool maybe', '!!null x', '!!int ""', '"\\U00110000"',
              '"\\UFFFFFFFF"', '"\\xZZ"', '"\\u12"', '"\\U0001f600"',
              '"\\N"', "'\\U00110000'"]


def token_soup(rng, maxlen=40):
    n = rng.randint(1, maxlen)
    return ''.join(rng.choice(INDICATORS) for _ in range(n))


def random_unicode(rng, maxlen=60):
    n = rng.randint(0, maxlen)
    out = []
    for _ in range(n):
        r = rng.random()
        if r < 0.6:
            out.append(chr(rng.randint(0x20, 0x7e)))
        elif r < 0.7:
            out.append(rng.choice('\n\t -:#[]{},&*!|>\'"%@`?'))
        elif r < 0.8:
            out.append(chr(rng.randint(0, 0x1f)))
        elif r < 0.9:
            out.append(chr(rng.randint(0x80, 0x2fff)))
        elif r < 0.95:
            out.append(chr(rng.randint(0x10000, 0x10ffff)))
        else:
            out.append(chr(rng.randint(0xd800, 0xdfff)))
    return ''.join(out)


def truncate_splice(rng, texts):
    a = rng.choice(texts)
    b = rng.choice(texts)
    r = rng.random()
    if r < 0.4:
        return a[:rng.randint(0, len(a))]
    if r < 0.7:
        return a[:rng.randint(0, len(a))] + b[rng.randint(0, len(b)):]
    i = rng.randint(0, len(a))
    return a[:i] + rng.choice(INDICATORS) + a[i:]


def make_cycle(spec, rng):
    """Turn a tree-shaped spec into a self-referential one: anchor a
    collection node and put an alias to it at one of its own descendants.
    Returns None if the spec has no collection with a descendant."""
    cands = []
    for p, s in paths(spec):
        if s[0] in ('seq', 'map') and s[1]:
            cands.append(p)
    if not cands:
        return None
    p = rng.choice(cands)
    sub = get_at(spec, p)
    inner = [q for q, _ in paths(sub) if q]
    if rng.random() < 0.8:
        vals = [q for q in inner if q[-1][0] != 'k']
        inner = vals or inner
    q = rng.choice(inner)
    sub2 = set_at(sub, q, ['alias', 'cyc'])
    return set_at(spec, p, ['anchor', 'cyc', sub2])


CYCLES = ['&a [*a]\n', '&a {k: *a}\n', '&a [1, [2, *a]]\n',
          'x: &a\n  y: *a\n', '&a\n- &b\n  - *a\n  - *b\n',
          '? &a [*a]\n: v\n', '&a {? *a : 1}\n', 'k: &a [&b {z: *a}, *b]\n']
