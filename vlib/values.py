"""Values of model types, their projection to plain data, structural digests
and the conformance walker (oracle of C01)."""
import collections
import collections.abc
import datetime
import enum
import math
import pathlib

import yatiml
from vlib import models as M
from vlib import plain

EXTRA_KEYS = ['x1', 'extra', 'note', 'true', '1', 'a b', '\u00e9', 'Zz',
              'null', '1.5', 'on', 'self', '_yatiml_extra', 'return', 'kwargs']
PATHS = ['a/b', '/abs/p', '.', 'x y', 'rel/../up', '~', 'true', '1', 'a:b',
         '\u00e9/\u00fc']


class Gen:
    """Random values of types of a model."""

    def __init__(self, model, rng, str_classes=('look', 'uni'),
                 finite=False, share=0.0, any_dates=True):
        self.m = model
        self.rng = rng
        self.str_classes = str_classes
        self.finite = finite
        self.share = share
        self.any_dates = any_dates
        self.made = []          # class instances made so far (for sharing)
        self.made_str = []      # seasoned string-like objects (for sharing)
        self.made_cont = {}     # type key -> lists / dicts made (for sharing)

    def maybe_shared(self, key, cont):
        """With sharing on, sometimes hand out a container object made
        earlier for the same type instead of the new one (the same list or
        dict object then sits at two places of the value)."""
        if not self.share:
            return cont
        pool = self.made_cont.setdefault(key, [])
        if pool and self.rng.random() < self.share * 0.6:
            return self.rng.choice(pool)
        if cont:
            pool.append(cont)
        return cont

    def string(self):
        return plain.rand_str(self.rng, self.str_classes)

    def concrete_choices(self, name):
        m = self.m
        out = []
        for n in [name] + m.descendants(name):
            if m.is_registered(n) and not m.is_abstract(n) and not \
                    m.cspecs[n].get('init_raises'):
                if n not in out:
                    out.append(n)
        return out

    def value(self, t, depth=3):
        rng = self.rng
        m = self.m
        if isinstance(t, str):
            if t == 'str':
                return self.string()
            if t == 'int':
                return rng.choice(plain.INTS)
            if t == 'float':
                if self.finite or rng.random() < 0.85:
                    return rng.choice(plain.FLOATS)
                return rng.choice(plain.NONFINITE)
            if t in ('bool', 'buf'):
                return rng.random() < 0.5
            if t == 'none':
                return None
            if t == 'date':
                d = rng.choice(plain.DATES + plain.DATETIMES)
                return d.replace()
            if t == 'path':
                return pathlib.Path(rng.choice(PATHS))
            if t in ('any', 'untyped'):
                return plain.rand_plain(
                    rng, depth=min(depth, 2), classes=self.str_classes,
                    finite=self.finite, dates=self.any_dates)
            raise ValueError(t)
        k = t[0]
        if k in ('list', 'seq', 'mseq'):
            n = 0 if depth <= 0 else rng.randint(0, 3)
            return self.maybe_shared(
                repr(t), [self.value(t[1], depth - 1) for _ in range(n)])
        if k in ('dict', 'map', 'mmap'):
            n = 0 if depth <= 0 else rng.randint(0, 3)
            d = {}
            for _ in range(n):
                key = self.value(t[1], depth - 1)
                if key in d:
                    continue
                d[key] = self.value(t[2], depth - 1)
            return self.maybe_shared(repr(t), d)
        if k == 'opt':
            # recursive hierarchies (a class holding Optional[ancestor]) must
            # bottom out: recognition in yatiml is exponential in the
            # nesting depth of such values
            if depth <= 0 or rng.random() < 0.3:
                return None
            return self.value(t[1], depth)
        if k == 'union':
            members = [x for x in t[1:]
                       if x != 'buf' or 'bool' not in t[1:]]
            return self.value(rng.choice(members), depth)
        if k == 'cls':
            return self.instance(t[1], depth)
        raise ValueError(t)

    def instance(self, name, depth):
        rng = self.rng
        m = self.m
        if depth < -12:
            raise NoValue('value of %s does not bottom out' % name)
        kind = m.kind(name)
        cls = m.classes[name]
        if kind == 'enum':
            return rng.choice(list(cls))
        if kind in ('str', 'userstring', 'stringlike'):
            s = self.string()
            con = m.cspecs[name].get('constraint')
            if con == 'starts_a':
                s = 'a' + s
            elif con == 'nonempty' and not s:
                s = 'n'
            elif con == 'upper':
                s = ''.join(ch for ch in s if ord(ch) < 128).upper()
                if self.share and self.made_str and rng.random() < self.share:
                    cands = [o for o in self.made_str
                             if type(o).__name__ == name]
                    if cands:
                        return rng.choice(cands)
                o = cls(s)
                self.made_str.append(o)
                return o
            return cls(s)
        choices = self.concrete_choices(name)
        if not choices:
            raise NoValue('no instantiable class for %s' % name)
        if self.share and self.made and rng.random() < self.share:
            cands = [o for o in self.made if type(o).__name__ in choices]
            if cands:
                return rng.choice(cands)
        cname = rng.choice(choices)
        c = m.cspecs[cname]
        kwargs = collections.OrderedDict()
        for p in c.get('params', []):
            if 'default' in p and rng.random() < 0.5:
                continue
            if c.get('word_attr') == p['name']:
                kwargs[p['name']] = rng.randint(0, 10)
                continue
            kwargs[p['name']] = self.value(
                p['type'] if p['type'] != 'untyped' else 'any', depth - 1)
        if c.get('extra'):
            ex = collections.OrderedDict()
            pnames = {p['name'] for p in c.get('params', [])}
            for _ in range(rng.randint(0, 3)):
                key = rng.choice(EXTRA_KEYS)
                if key in pnames or key in ex or key == 'kind':
                    continue
                ex[key] = plain.rand_plain(
                    rng, depth=1, classes=self.str_classes,
                    finite=self.finite, dates=self.any_dates)
            kwargs['_yatiml_extra'] = ex
        if c.get('unique_list'):
            attr, key_attr = c['unique_list']
            seen, uniq = set(), []
            for it in kwargs.get(attr) or []:
                k = str(getattr(it, '_v_args', {}).get(key_attr))
                if k not in seen:
                    seen.add(k)
                    uniq.append(it)
            kwargs[attr] = self.maybe_shared(repr(('roster', cname, attr)),
                                             uniq)
        if c.get('index_attr'):
            attr, key_attr = c['index_attr']
            ktype = [p for p in c['params'] if p['name'] == attr][0]['type'][1]
            new = {}
            for it in (kwargs.get(attr) or {}).values():
                ks = str(getattr(it, '_v_args', {}).get(key_attr))
                key = ks if ktype == 'str' else m.classes[ktype[1]](ks)
                new[key] = it
            kwargs[attr] = self.maybe_shared(repr(('roster', cname, attr)),
                                             new)
        obj = m.classes[cname](**kwargs)
        self.made.append(obj)
        return obj


class NoValue(Exception):
    pass


# ---------------------------------------------------------------------------
# structural digest of arbitrary loaded / generated values

def vdigest(v, _depth=0):
    if _depth > 60:
        return ['deep']
    if isinstance(v, enum.Enum):
        return ['enum', type(v).__name__, v.name]
    args = getattr(v, '_v_args', None)
    if args is not None and not isinstance(v, type):
        return ['inst', type(v).__name__,
                [[k, vdigest(x, _depth + 1)] for k, x in args.items()]]
    if isinstance(v, (str, collections.UserString, yatiml.String)) \
            and type(v) is not str:
        return ['strlike', type(v).__name__, plain.digest(str(v))]
    if isinstance(v, dict):
        return ['dict', [[vdigest(k, _depth + 1), vdigest(x, _depth + 1)]
                         for k, x in v.items()]]
    if isinstance(v, (list, tuple)):
        return [type(v).__name__, [vdigest(x, _depth + 1) for x in v]]
    return plain.digest(v)


def vsame(a, b):
    return vdigest(a) == vdigest(b)


def rdigest(v, _depth=0):
    """Digest of what the constructors of the objects in v were *handed*
    for parameters they convert (classes with _yatiml_defaults whose
    constructor turns None into the override): [] where nothing is
    recorded."""
    if _depth > 60:
        return []
    out = []
    rec = getattr(v, '_v_received', None)
    if rec is not None and not isinstance(v, type):
        out.append([type(v).__name__,
                    [[k, plain.digest(x) if isinstance(
                        x, (str, int, float, bool, type(None))) else 'obj']
                     for k, x in rec.items()]])
    args = getattr(v, '_v_args', None)
    if args is not None and not isinstance(v, type):
        for x in args.values():
            out.extend(rdigest(x, _depth + 1))
    elif isinstance(v, dict):
        for x in v.values():
            out.extend(rdigest(x, _depth + 1))
    elif isinstance(v, (list, tuple)):
        for x in v:
            out.extend(rdigest(x, _depth + 1))
    return out


def has_instance(v, _depth=0):
    """Does the value contain a class instance or container?"""
    if getattr(v, '_v_args', None) is not None or isinstance(v, enum.Enum):
        return True
    return isinstance(v, (dict, list))


# ---------------------------------------------------------------------------
# conformance walker

def conforms(model, v, t, path='$', _depth=0):
    """None if v conforms to type t, else a (path, reason) pair."""
    if _depth > 80:
        return (path, 'too deep')
    if isinstance(t, str):
        if t in ('any', 'untyped'):
            return None
        if t == 'str':
            return None if type(v) is str else (path, 'expected str, got %s'
                                                % tname(v))
        if t == 'int':
            return None if type(v) is int else (path, 'expected int, got %s'
                                                % tname(v))
        if t == 'float':
            return None if type(v) is float else (
                path, 'expected float, got %s' % tname(v))
        if t in ('bool', 'buf'):
            return None if type(v) is bool else (
                path, 'expected bool, got %s' % tname(v))
        if t == 'none':
            return None if v is None else (path, 'expected None, got %s'
                                           % tname(v))
        if t == 'date':
            return None if type(v) in (datetime.date, datetime.datetime) \
                else (path, 'expected date, got %s' % tname(v))
        if t == 'path':
            return None if isinstance(v, pathlib.PurePath) else (
                path, 'expected Path, got %s' % tname(v))
        raise ValueError(t)
    k = t[0]
    if k in ('list', 'seq', 'mseq'):
        if type(v) is not list:
            return (path, 'expected list, got %s' % tname(v))
        for i, x in enumerate(v):
            r = conforms(model, x, t[1], '%s[%d]' % (path, i), _depth + 1)
            if r:
                return r
        return None
    if k in ('dict', 'map', 'mmap'):
        if not isinstance(v, dict):
            return (path, 'expected dict, got %s' % tname(v))
        for key, x in v.items():
            r = conforms(model, key, t[1], '%s{key %r}' % (path, key),
                         _depth + 1)
            if r:
                return r
            r = conforms(model, x, t[2], '%s[%r]' % (path, key), _depth + 1)
            if r:
                return r
        return None
    if k == 'opt':
        if v is None:
            return None
        return conforms(model, v, t[1], path, _depth)
    if k == 'union':
        rs = []
        for m in t[1:]:
            r = conforms(model, v, m, path, _depth)
            if r is None:
                return None
            rs.append(r)
        return (path, 'matches no union member: %s' % '; '.join(
            x[1] for x in rs[:3]))
    if k == 'cls':
        return conforms_class(model, v, t[1], path, _depth)
    raise ValueError(t)


def tname(v):
    return type(v).__name__


def conforms_class(model, v, name, path, _depth):
    declared = model.classes.get(name)
    if declared is None:
        return (path, 'declared class %s unknown' % name)
    cls = type(v)
    cname = cls.__name__
    if model.classes.get(cname) is not cls:
        return (path, 'expected %s, got %s' % (name, tname(v)))
    if not issubclass(cls, declared):
        return (path, 'expected %s, got unrelated class %s' % (name, cname))
    if not model.is_registered(cname):
        return (path, 'instance of unregistered class %s' % cname)
    kind = model.kind(cname)
    if kind == 'enum':
        return None
    if kind in ('str', 'userstring', 'stringlike'):
        return None
    if model.is_abstract(cname):
        return (path, 'instance of abstract class %s' % cname)
    args = getattr(v, '_v_args', None)
    if args is None:
        return (path, '%s object whose __init__ never ran' % cname)
    return conforms_args(model, cname, args, path, _depth)


def conforms_args(model, cname, args, path='$', _depth=0):
    """Arguments received by cname.__init__ conform to its annotations."""
    c = model.cspecs[cname]
    pnames = [p['name'] for p in c.get('params', [])]
    for p in c.get('params', []):
        if p['name'] not in args:
            return (path, '%s.__init__ did not receive %s' % (
                cname, p['name']))
        t = p['type']
        if 'default' in p:
            # an omitted optional parameter takes its Python default, which
            # the model author chose; only arguments that came from the
            # document are judged.  Identity with the default => not judged.
            try:
                d = model.ns['_D_%s_%s' % (cname, p['name'])]
            except KeyError:
                d = None
            if args[p['name']] is d:
                continue
        r = conforms(model, args[p['name']], t,
                     '%s.%s' % (path, p['name']), _depth + 1)
        if r:
            return r
    for k in args:
        if k not in pnames and k != '_yatiml_extra':
            return (path, '%s.__init__ received unknown argument %s' % (
                cname, k))
    if '_yatiml_extra' in args:
        r = plain_only(args['_yatiml_extra'], path + '._yatiml_extra')
        if r:
            return r
    return None


PLAIN_TYPES = (str, int, float, bool, type(None), datetime.date,
               datetime.datetime, bytes)


def plain_only(v, path='$', _depth=0):
    """None iff v is plain data: dicts, lists and built-in scalars only."""
    if _depth > 80:
        return (path, 'too deep')
    if type(v) in PLAIN_TYPES:
        return None
    if type(v) in (dict, collections.OrderedDict):
        for k, x in v.items():
            if type(k) not in PLAIN_TYPES and not isinstance(k, tuple):
                return (path, 'non-plain key %r of type %s' % (k, tname(k)))
            r = plain_only(x, '%s[%r]' % (path, k), _depth + 1)
            if r:
                return r
        return None
    if type(v) is list:
        for i, x in enumerate(v):
            r = plain_only(x, '%s[%d]' % (path, i), _depth + 1)
            if r:
                return r
        return None
    if type(v) is set:      # !!set
        return None
    if type(v) is tuple:    # !!omap / complex keys
        return None
    return (path, 'non-plain object of type %s.%s' % (
        type(v).__module__, type(v).__qualname__))


def any_positions(model, v, t, path='$', _depth=0):
    """Yield (path, value) for every position typed Any/untyped/extra."""
    if _depth > 80:
        return
    if isinstance(t, str):
        if t in ('any', 'untyped'):
            yield path, v
        return
    k = t[0]
    if k in ('list', 'seq', 'mseq') and isinstance(v, list):
        for i, x in enumerate(v):
            yield from any_positions(model, x, t[1], '%s[%d]' % (path, i),
                                     _depth + 1)
    elif k in ('dict', 'map', 'mmap') and isinstance(v, dict):
        for key, x in v.items():
            yield from any_positions(model, x, t[2], '%s[%r]' % (path, key),
                                     _depth + 1)
    elif k == 'opt':
        if v is not None:
            yield from any_positions(model, v, t[1], path, _depth)
    elif k == 'union':
        for m in t[1:]:
            if conforms(model, v, m) is None:
                yield from any_positions(model, v, m, path, _depth)
                break
    elif k == 'cls':
        args = getattr(v, '_v_args', None)
        cname = type(v).__name__
        if args is not None and cname in model.cspecs:
            for p in model.cspecs[cname].get('params', []):
                if p['name'] in args:
                    yield from any_positions(
                        model, args[p['name']], p['type'],
                        '%s.%s' % (path, p['name']), _depth + 1)
            if '_yatiml_extra' in args:
                yield path + '._yatiml_extra', args['_yatiml_extra']


# ---------------------------------------------------------------------------
# JSON-able encoding of values (for replay files); sharing is kept

def encode_value(v, _memo=None):
    import collections as _c
    if _memo is None:
        _memo = {}
    if isinstance(v, enum.Enum):
        return {'$enum': type(v).__name__, 'member': v.name}
    if v is None or isinstance(v, (bool, int)):
        return v
    if isinstance(v, float):
        return {'$f': repr(v)}
    if type(v) is str:
        if plain.has_surrogate(v) or not v.isprintable():
            return {'$s': [ord(c) for c in v]}
        return v
    if isinstance(v, datetime.datetime):
        return {'$dt': v.isoformat()}
    if isinstance(v, datetime.date):
        return {'$d': v.isoformat()}
    if isinstance(v, pathlib.PurePath):
        return {'$p': str(v)}
    if isinstance(v, (str, _c.UserString, yatiml.String)):
        return {'$strlike': type(v).__name__, 's': encode_value(str(v))}
    if id(v) in _memo:
        return {'$shared': _memo[id(v)]}
    _memo[id(v)] = len(_memo)
    n = _memo[id(v)]
    args = getattr(v, '_v_args', None)
    if args is not None:
        return {'$inst': type(v).__name__, 'id': n,
                'args': [[k, encode_value(x, _memo)] for k, x in args.items()]}
    if isinstance(v, dict):
        return {'$m': [[encode_value(k, _memo), encode_value(x, _memo)]
                       for k, x in v.items()], 'id': n,
                'ordered': isinstance(v, _c.OrderedDict)}
    if isinstance(v, (list, tuple)):
        return {'$l': [encode_value(x, _memo) for x in v], 'id': n}
    if isinstance(v, bytes):
        return {'$b': v.hex()}
    raise TypeError(type(v))


def decode_value(model, e, _memo=None):
    import collections as _c
    if _memo is None:
        _memo = {}
    if not isinstance(e, dict):
        return e
    if '$enum' in e:
        return model.classes[e['$enum']][e['member']]
    if '$f' in e:
        return float(e['$f'])
    if '$s' in e:
        return ''.join(chr(c) for c in e['$s'])
    if '$dt' in e:
        return datetime.datetime.fromisoformat(e['$dt'])
    if '$d' in e:
        return datetime.date.fromisoformat(e['$d'])
    if '$p' in e:
        return pathlib.Path(e['$p'])
    if '$b' in e:
        return bytes.fromhex(e['$b'])
    if '$strlike' in e:
        return model.classes[e['$strlike']](decode_value(model, e['s']))
    if '$shared' in e:
        return _memo[e['$shared']]
    if '$inst' in e:
        kwargs = _c.OrderedDict(
            (k, decode_value(model, x, _memo)) for k, x in e['args'])
        obj = model.classes[e['$inst']](**kwargs)
        _memo[e['id']] = obj
        return obj
    if '$m' in e:
        d = _c.OrderedDict() if e.get('ordered') else {}
        _memo[e['id']] = d
        for k, x in e['$m']:
            d[decode_value(model, k, _memo)] = decode_value(model, x, _memo)
        return d
    if '$l' in e:
        lst = []
        _memo[e['id']] = lst
        lst.extend(decode_value(model, x, _memo) for x in e['$l'])
        return lst
    raise ValueError(e)
