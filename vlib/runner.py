"""Shard runner, aggregation, verdicts, evidence.

main process:   run_property(prop, tier, seed)  -> exit code
shard process:  run_shard(prop, tier, seed, i, n, out)

A check module (checks/cNN.py) provides

    PROPERTY      'C07'
    RULE          text for evidence.coverage.rule
    ASSUMPTIONS   list of str
    LEVEL         'exploration' (default)
    def shard(ctx)                  generate + run this shard's cases
    def replay(ctx, case)           run exactly one recorded case again
    def requirements(tier)          {counter: minimum} - below => inconclusive
    EXHAUSTIVE    optional bool / callable(tier)

Exit codes: 0 held (possibly with KNOWN-FINDING lines), 1 violation,
2 inconclusive (a deciding monitor saw too little, a shard crashed for a reason
the check does not interpret, or the watchdog fired).
"""
import collections
import hashlib
import importlib
import json
import os
import random
import subprocess
import sys
import tempfile
import time
import traceback

from vlib import env
from vlib import findings

NSHARDS = int(os.environ.get('VERIF_SHARDS', '16'))
MAX_SAMPLES = 6


def stable_hash(obj):
    """64-bit stable hash of a JSON-able object (or str/bytes)."""
    if isinstance(obj, bytes):
        data = obj
    elif isinstance(obj, str):
        data = obj.encode('utf-8', 'surrogatepass')
    else:
        data = json.dumps(obj, sort_keys=True, default=repr).encode(
            'utf-8', 'surrogatepass')
    return int.from_bytes(hashlib.blake2b(data, digest_size=8).digest(), 'big')


class Ctx:
    """What a check sees while it runs."""

    def __init__(self, prop, tier, seed, shard, nshards, replaying=False):
        self.prop = prop
        self.tier = tier
        self.seed = seed
        self.shard = shard
        self.nshards = nshards
        self.replaying = replaying
        self.rng = random.Random(seed * 1000003 + shard)
        self.counters = collections.Counter()
        self.evaluations = 0
        self.distinct = set()
        self.violations = {}     # key -> {what, case, count}
        self.samples = []
        self.sample_kinds = set()
        self.notes = []

    # sizes ---------------------------------------------------------------
    def budget(self, quick, thorough):
        """Number of cases for the whole run -> this shard's part."""
        total = quick if self.tier == 'quick' else thorough
        scale = float(os.environ.get('VERIF_SCALE', '1'))
        total = max(1, int(total * scale))
        base, rem = divmod(total, self.nshards)
        return base + (1 if self.shard < rem else 0)

    def pick(self, quick, thorough):
        return quick if self.tier == 'quick' else thorough

    def mine(self, index):
        """Static partition of an enumerated space over the shards."""
        return index % self.nshards == self.shard

    # recording -----------------------------------------------------------
    def count(self, name, n=1):
        self.counters[name] += n

    def case(self, case_id, nontrivial=True):
        """One case evaluated. case_id: any JSON-able identity of it."""
        self.evaluations += 1
        if nontrivial:
            self.distinct.add(stable_hash(case_id))

    def sample(self, obj, kind='case'):
        if len(self.samples) < MAX_SAMPLES and (
                kind not in self.sample_kinds or len(self.samples) < 2):
            self.sample_kinds.add(kind)
            self.samples.append(obj)

    def violation(self, key, what, case):
        """Record a violation.

        key: mechanism key (no random values, no line numbers)
        what: human readable one-liner
        case: JSON-able, sufficient for check.replay()
        """
        v = self.violations.get(key)
        if v is None:
            self.violations[key] = {'what': what, 'case': case, 'count': 1}
        else:
            v['count'] += 1
        self.count('violations_raw')

    def note(self, text):
        if len(self.notes) < 20:
            self.notes.append(text)


# ---------------------------------------------------------------------------
# coverage monitor (sys.monitoring, first hit only => negligible cost)

class Coverage:
    TOOL = 3

    def __init__(self):
        self.prefix = os.path.join(env.REPO, 'yatiml') + os.sep
        self.funcs = set()
        self.lines = set()
        self.active = False

    def start(self):
        mon = getattr(sys, 'monitoring', None)
        if mon is None:
            return
        try:
            mon.use_tool_id(self.TOOL, 'verif-cov')
        except ValueError:
            return
        E = mon.events
        prefix = self.prefix
        funcs, lines = self.funcs, self.lines
        DISABLE = mon.DISABLE

        def on_start(code, off):
            fn = code.co_filename
            if fn.startswith(prefix):
                funcs.add((fn[len(prefix):], code.co_qualname))
            return DISABLE

        def on_line(code, line):
            fn = code.co_filename
            if fn.startswith(prefix):
                lines.add((fn[len(prefix):], line))
            return DISABLE

        mon.register_callback(self.TOOL, E.PY_START, on_start)
        mon.register_callback(self.TOOL, E.LINE, on_line)
        mon.set_events(self.TOOL, E.PY_START | E.LINE)
        self.active = True

    def stop(self):
        if self.active:
            mon = sys.monitoring
            mon.set_events(self.TOOL, 0)
            mon.free_tool_id(self.TOOL)
            self.active = False

    def result(self):
        return {'funcs': sorted('%s:%s' % f for f in self.funcs),
                'lines': sorted('%s:%d' % l for l in self.lines)}


FUNCTION_LINES = set()      # filled by inventory(): lines inside functions


def inventory():
    """All functions and executable lines of REPO/yatiml (static)."""
    root = os.path.join(env.REPO, 'yatiml')
    funcs, lines = set(), set()
    for name in sorted(os.listdir(root)):
        if not name.endswith('.py'):
            continue
        path = os.path.join(root, name)
        try:
            code = compile(open(path, encoding='utf-8').read(), path, 'exec')
        except SyntaxError:
            continue
        stack = [code]
        while stack:
            c = stack.pop()
            if c.co_name != '<module>':
                funcs.add('%s:%s' % (name, c.co_qualname))
                for _, _, ln in c.co_lines():
                    if ln is not None and ln != c.co_firstlineno:
                        lines.add((name, ln))
                        if c.co_flags & 1:      # a function, not a class body
                            FUNCTION_LINES.add((name, ln))
            for k in c.co_consts:
                if hasattr(k, 'co_code'):
                    stack.append(k)
    return funcs, lines


def anchor_ranges(prop):
    """Line ranges named by the property's anchors (mechanism.where)."""
    import re
    out = []
    try:
        with open(os.path.join(env.VERIF, 'properties.jsonl')) as f:
            for line in f:
                p = json.loads(line)
                if p['id'] != prop:
                    continue
                for m in p['anchors'].get('mechanism', []):
                    for part in m.get('where', '').split(';'):
                        mm = re.match(r'\s*yatiml/(\w+\.py):([\d,\-]+)', part)
                        if not mm:
                            continue
                        for r in mm.group(2).split(','):
                            if '-' in r:
                                a, b = r.split('-')
                            else:
                                a = b = r
                            out.append((mm.group(1), int(a), int(b)))
    except OSError:
        pass
    return out


def map_ranges_to_tree(ranges):
    """The anchors cite line numbers of the pinned tree; fixes have moved
    lines since.  Map each cited range onto the current working tree by
    diffing the file of the root commit against the current file: unchanged
    lines map one to one, a changed block inside a range maps to the block
    that replaced it.  Returns ({(file, current line)}, mapped?)."""
    import difflib
    import subprocess
    repo = env.REPO
    out = set()
    mapped = True
    by_file = {}
    for f, a, b in ranges:
        by_file.setdefault(f, []).append((a, b))
    try:
        root = subprocess.run(
            ['git', '-C', repo, 'rev-list', '--max-parents=0', 'HEAD'],
            capture_output=True, text=True, timeout=60).stdout.split()[-1]
    except Exception:
        root = None
    for f, rs in by_file.items():
        base = None
        if root:
            try:
                r = subprocess.run(
                    ['git', '-C', repo, 'show', '%s:yatiml/%s' % (root, f)],
                    capture_output=True, text=True, timeout=60)
                if r.returncode == 0:
                    base = r.stdout.splitlines()
            except Exception:
                base = None
        try:
            with open(os.path.join(repo, 'yatiml', f)) as fh:
                cur = fh.read().splitlines()
        except OSError:
            cur = None
        if base is None or cur is None:
            mapped = False
            for a, b in rs:
                out.update((f, ln) for ln in range(a, b + 1))
            continue
        sm = difflib.SequenceMatcher(None, base, cur, autojunk=False)
        for tag, i1, i2, j1, j2 in sm.get_opcodes():
            # base lines i1+1..i2 correspond to current lines j1+1..j2
            for a, b in rs:
                lo, hi = max(a, i1 + 1), min(b, i2)
                if tag == 'equal':
                    for ln in range(lo, hi + 1):
                        out.add((f, ln - i1 + j1))
                elif tag == 'replace' and lo <= hi:
                    out.update((f, ln) for ln in range(j1 + 1, j2 + 1))
                elif tag == 'insert' and a <= i1 < b:
                    out.update((f, ln) for ln in range(j1 + 1, j2 + 1))
    return out, mapped


# ---------------------------------------------------------------------------
# shard side

def load_check(prop):
    env.bootstrap()
    return importlib.import_module('checks.' + prop.lower())


def run_shard(prop, tier, seed, shard, nshards, out):
    import faulthandler
    faulthandler.enable()
    t0 = time.time()
    mod = load_check(prop)
    ctx = Ctx(prop, tier, seed, shard, nshards)
    cov = Coverage()
    cov.start()
    err = None
    try:
        mod.shard(ctx)
    except BaseException:       # harness bug or interpreter-level failure
        err = traceback.format_exc()
    cov.stop()
    res = {
        'shard': shard,
        'evaluations': ctx.evaluations,
        'distinct': sorted(ctx.distinct),
        'counters': dict(ctx.counters),
        'violations': ctx.violations,
        'samples': ctx.samples,
        'notes': ctx.notes,
        'coverage': cov.result(),
        'error': err,
        'wall_s': time.time() - t0,
    }
    with open(out, 'w') as f:
        json.dump(res, f, default=repr)
    return 0


# ---------------------------------------------------------------------------
# main side

def _spawn(prop, tier, seed, i, n, outdir):
    out = os.path.join(outdir, 'shard%02d.json' % i)
    log = open(os.path.join(outdir, 'shard%02d.log' % i), 'w')
    cmd = [env.PYTHON, '-X', 'faulthandler', '-W', 'ignore',
           os.path.join(env.VERIF, 'vcheck.py'),
           '--property', prop, '--tier', tier, '--seed', str(seed),
           '--shard', '%d/%d' % (i, n), '--out', out]
    p = subprocess.Popen(cmd, stdout=log, stderr=subprocess.STDOUT,
                         env=env.child_env(), cwd=env.VERIF)
    return p, out, log


def run_property(prop, tier, seed):
    t0 = time.time()
    mod = load_check(prop)
    nshards = getattr(mod, 'SHARDS', NSHARDS)
    watchdog = getattr(mod, 'WATCHDOG', {'quick': 600, 'thorough': 5400})[tier]
    outdir = tempfile.mkdtemp(prefix='run-%s-' % prop, dir=env.workdir('runs'))
    procs = [_spawn(prop, tier, seed, i, nshards, outdir)
             for i in range(nshards)]
    deadline = t0 + watchdog
    problems = []
    results = []
    for i, (p, out, log) in enumerate(procs):
        try:
            rc = p.wait(timeout=max(1, deadline - time.time()))
        except subprocess.TimeoutExpired:
            p.kill()
            p.wait()
            problems.append('shard %d hit the %ds watchdog' % (i, watchdog))
            log.close()
            continue
        log.close()
        if rc != 0 or not os.path.exists(out):
            tail = ''
            try:
                tail = open(log.name, errors='replace').read()[-2000:]
            except OSError:
                pass
            crash = getattr(mod, 'on_shard_crash', None)
            problems.append('shard %d exited with %s\n%s' % (i, rc, tail))
            if crash is not None:
                crash(i, rc, tail, problems)
            continue
        with open(out) as f:
            results.append(json.load(f))

    # aggregate ------------------------------------------------------------
    counters = collections.Counter()
    distinct = set()
    evaluations = 0
    samples = []
    violations = {}
    funcs_hit, lines_hit = set(), set()
    notes = []
    for r in results:
        evaluations += r['evaluations']
        distinct.update(r['distinct'])
        counters.update(r['counters'])
        for s in r['samples']:
            if len(samples) < MAX_SAMPLES:
                samples.append(s)
        for k, v in r['violations'].items():
            if k in violations:
                violations[k]['count'] += v['count']
            else:
                violations[k] = v
        funcs_hit.update(r['coverage']['funcs'])
        lines_hit.update(r['coverage']['lines'])
        notes.extend(r['notes'])
        if r['error']:
            problems.append('shard %d raised inside the harness:\n%s' % (
                r['shard'], r['error']))

    # classify against the known-findings file -------------------------------
    known = findings.load()
    new, listed = {}, {}
    for k, v in sorted(violations.items()):
        ent = findings.match(known, prop, k)
        if ent is not None:
            listed[k] = (v, ent)
        else:
            new[k] = v

    replay_dir = os.path.join(env.VERIF, 'replay', prop)
    os.makedirs(replay_dir, exist_ok=True)
    for old in os.listdir(replay_dir):      # witnesses of earlier runs
        try:
            os.unlink(os.path.join(replay_dir, old))
        except OSError:
            pass
    lines_out = []
    for k, (v, ent) in listed.items():
        lines_out.append('KNOWN-FINDING: property=%s %s [key=%s, seen %d times]'
                         % (prop, ent['what'], k, v['count']))
    for k, v in new.items():
        path = os.path.join(
            replay_dir, '%016x.json' % stable_hash(k))
        with open(path, 'w') as f:
            json.dump({'property': prop, 'key': k, 'what': v['what'],
                       'tier': tier, 'seed': seed, 'case': v['case']},
                      f, indent=1, default=repr)
        lines_out.append('VIOLATION property=%s replay=%s' % (prop, path))
        lines_out.append('  key: %s' % k)
        what = v['what'] if len(v['what']) < 600 else v['what'][:600] + '...'
        lines_out.append('  what: %s (seen %d times)' % (what, v['count']))

    # must-observe thresholds ---------------------------------------------------
    req = mod.requirements(tier) if hasattr(mod, 'requirements') else {}
    unmet = []
    for name, minimum in sorted(req.items()):
        if counters.get(name, 0) < minimum:
            unmet.append('%s=%d < %d' % (name, counters.get(name, 0), minimum))

    # a generator defect must not pass as "fewer cases": generated models
    # that cannot be built are rare by construction
    for name in ('model_build_failed', 'load_function_creation_failed',
                 'dumps_function_creation_failed'):
        if counters.get(name, 0) > max(50, 0.01 * counters.get(
                'evaluations', 0) if False else 50) and \
                counters.get(name, 0) > 0.02 * max(1, sum(
                    v for k, v in counters.items()
                    if k in ('models', 'loads', 'dumps', 'cases'))):
            unmet.append('%s=%d (too many)' % (name, counters[name]))

    # coverage numbers --------------------------------------------------------------
    all_funcs, all_lines = inventory()
    never = sorted(all_funcs - funcs_hit)
    ranges = anchor_ranges(prop)
    anchored, anchors_mapped = map_ranges_to_tree(ranges)
    anchor_total = {(f, ln) for (f, ln) in all_lines if (f, ln) in anchored}
    hit_pairs = set()
    for s in lines_hit:
        f, ln = s.rsplit(':', 1)
        hit_pairs.add((f, int(ln)))
    anchor_hit = anchor_total & hit_pairs

    exhaustive = getattr(mod, 'EXHAUSTIVE', False)
    if callable(exhaustive):
        exhaustive = exhaustive(tier)

    wall = time.time() - t0
    coverage = {
        'evaluations': int(evaluations),
        'distinct_nontrivial': len(distinct),
        'rule': mod.RULE,
        'samples': samples,
        'counters': dict(sorted(counters.items())),
        'must_observe': req,
        'must_observe_unmet': unmet,
        'shards_completed': len(results),
        'shards_total': nshards,
        'yatiml_functions_entered': len(funcs_hit),
        'yatiml_functions_total': len(all_funcs),
        'yatiml_functions_never_entered': never,
        'anchor_lines_mapped_from_pinned_tree': anchors_mapped,
        'anchor_lines_reached': len(anchor_hit),
        'anchor_lines_total': len(anchor_total),
        'anchor_lines_missed': sorted(
            '%s:%d' % p for p in (anchor_total - anchor_hit))[:60],
        'yatiml_function_lines_reached': len(FUNCTION_LINES & hit_pairs),
        'yatiml_function_lines_total': len(FUNCTION_LINES),
        'known_findings_seen': sorted(listed),
        'new_violation_keys': sorted(new),
        'problems': problems,
        'notes': notes[:20],
        'repo': env.REPO,
    }
    if exhaustive:
        coverage['exhaustive'] = True
    if hasattr(mod, 'extra_evidence'):
        coverage.update(mod.extra_evidence(tier, counters))
    evidence = {
        'property_id': prop,
        'tier': tier,
        'seed': int(seed),
        'level': getattr(mod, 'LEVEL', 'exploration'),
        'coverage': coverage,
        'assumptions': list(mod.ASSUMPTIONS),
        'wall_s': round(wall, 2),
        'violations': len(new),
    }
    # every executable line of yatiml this run reached / did not reach, for
    # tools/linecov.py (union over all checks; git-ignored scratch)
    try:
        os.makedirs(os.path.join(env.VERIF, '.work', 'linecov'), exist_ok=True)
        with open(os.path.join(env.VERIF, '.work', 'linecov',
                               '%s-%s.json' % (prop, tier)), 'w') as f:
            json.dump({'repo': env.REPO,
                       'hit': sorted('%s:%d' % p
                                     for p in FUNCTION_LINES & hit_pairs),
                       'missed': sorted('%s:%d' % p
                                        for p in FUNCTION_LINES - hit_pairs)}, f)
    except OSError:
        pass

    os.makedirs(os.path.join(env.VERIF, 'evidence'), exist_ok=True)
    if env.REPO == '/repo' or os.environ.get('VERIF_WRITE_EVIDENCE'):
        epath = os.path.join(env.VERIF, 'evidence', '%s.json' % prop)
    else:
        # runs against scratch copies must not overwrite the committed evidence
        epath = os.path.join(outdir, 'evidence-%s.json' % prop)
    with open(epath, 'w') as f:
        json.dump(evidence, f, indent=1, default=repr)
        f.write('\n')

    for line in lines_out:
        print(line)
    print('%s tier=%s seed=%s: %d cases, %d distinct non-trivial, '
          '%d new violation keys, %d known, %.1fs, fn %d/%d, anchor lines %d/%d'
          % (prop, tier, seed, evaluations, len(distinct), len(new),
             len(listed), wall, len(funcs_hit), len(all_funcs),
             len(anchor_hit), len(anchor_total)))
    shown = ['%s=%d' % kv for kv in sorted(counters.items())]
    print('  observed: ' + ' '.join(shown))

    # clean the scratch directory unless something needs inspecting
    if not problems:
        import shutil
        shutil.rmtree(outdir, ignore_errors=True)

    if new:
        return 1
    if problems or unmet or len(results) < nshards:
        for n, p in enumerate(problems):
            print('INCONCLUSIVE: ' + p.strip().splitlines()[0])
            if n < 2:
                for extra in p.strip().splitlines()[1:][-15:]:
                    print('    ' + extra)
        for u in unmet:
            print('INCONCLUSIVE: must-observe not met: ' + u)
        return 2
    return 0


def run_replay(prop, path):
    mod = load_check(prop)
    with open(path) as f:
        rec = json.load(f)
    ctx = Ctx(prop, rec.get('tier', 'quick'), rec.get('seed', 0), 0, 1,
              replaying=True)
    if isinstance(rec['case'], dict) and rec['case'].get(
            'kind') == 'repotests':
        from vlib import repotests
        repotests.run(ctx, prop, [rec['case']['contract']])
    else:
        mod.replay(ctx, rec['case'])
    known = findings.load()
    rc = 0
    if not ctx.violations:
        print('replay: no violation reproduced (recorded key: %s)' % rec['key'])
        return 0
    for k, v in ctx.violations.items():
        ent = findings.match(known, prop, k)
        if ent is not None:
            print('KNOWN-FINDING: property=%s %s [key=%s]' % (
                prop, ent['what'], k))
        else:
            print('VIOLATION property=%s replay=%s' % (prop, path))
            print('  key: %s' % k)
            print('  what: %s' % v['what'][:2000])
            rc = 1
    return rc
