"""Run the repository's own test suite with the harness contracts installed
(vlib/pytest_contracts.py) and feed what the contracts observed into a check.
Called from shard 0 of the checks whose property a contract belongs to."""
import json
import os
import subprocess

from vlib import env


def run(ctx, prop, contracts):
    """contracts: names of the contracts that belong to this property."""
    if ctx.shard != 0:
        return
    tests = os.path.join(env.REPO, 'tests')
    if not os.path.isdir(tests):
        ctx.note('repository tests not found')
        return
    report = os.path.join(env.workdir('repotests'),
                          'report-%s-%d.json' % (prop, os.getpid()))
    e = env.child_env()
    e['VERIF_CONTRACT_REPORT'] = report
    e.pop('YATIML_TEST_ERROR_MESSAGES', None)
    cmd = [env.PYTHON, '-m', 'pytest', '-q', '-p', 'no:cacheprovider',
           '-p', 'vlib.pytest_contracts', '-o', 'addopts=', tests]
    try:
        p = subprocess.run(cmd, env=e, cwd=env.REPO, stdout=subprocess.PIPE,
                           stderr=subprocess.STDOUT, timeout=600)
    except subprocess.TimeoutExpired:
        ctx.note('repository tests under contracts timed out')
        return
    try:
        with open(report) as f:
            rep = json.load(f)
        os.unlink(report)
    except (OSError, ValueError):
        ctx.note('no contract report: %s' % p.stdout.decode(
            'utf-8', 'replace')[-300:])
        return
    ctx.count('repo_tests_run', rep['evaluations'].get('tests-run', 0))
    for name in contracts:
        ctx.count('repo_tests_contract_evaluations[%s]' % name,
                  rep['evaluations'].get(name, 0))
    for u in rep.get('unavailable', []):
        if any(u.startswith(c) for c in contracts):
            ctx.note('contract unavailable: %s' % u)
    for v in rep.get('violations', []):
        if v['contract'] in contracts:
            ctx.violation(
                '%s repository-tests contract=%s' % (prop, v['contract']),
                'while the repository test %s ran: %s' % (
                    v.get('test'), v['detail']),
                {'kind': 'repotests', 'contract': v['contract'],
                 'test': v.get('test')})
    ctx.case(['repotests', prop], True)
