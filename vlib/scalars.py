"""Hand-written YAML 1.2 core-schema classifiers for plain scalars and an
independent implicit resolver built on them.

Nothing here looks at yatiml or at PyYAML's float/bool regexes; the float and
bool recognisers are explicit scanners (no regular expressions) written from
the YAML 1.2.2 specification, section 10.3.2:

    bool   true | True | TRUE | false | False | FALSE
    float  [-+]? ( \\. [0-9]+ | [0-9]+ ( \\. [0-9]* )? ) ( [eE] [-+]? [0-9]+ )?
           with a '.' and/or an exponent (otherwise it is an int)
           [-+]? \\. ( inf | Inf | INF )
           \\. ( nan | NaN | NAN )

Integer, null and timestamp typing is PyYAML's (property C09 says so), so for
those the reference resolver simply reuses PyYAML's own regexes.
"""
import math

import yaml

DIGITS = '0123456789'
BOOL_WORDS = ('true', 'True', 'TRUE', 'false', 'False', 'FALSE')
TRUE_WORDS = ('true', 'True', 'TRUE')
INF_WORDS = ('.inf', '.Inf', '.INF')
NAN_WORDS = ('.nan', '.NaN', '.NAN')

T = 'tag:yaml.org,2002:'
TAG_STR, TAG_INT, TAG_FLOAT, TAG_BOOL, TAG_NULL = (
    T + 'str', T + 'int', T + 'float', T + 'bool', T + 'null')
TAG_TS, TAG_SEQ, TAG_MAP = T + 'timestamp', T + 'seq', T + 'map'
TAG_MERGE, TAG_VALUE = T + 'merge', T + 'value'


def is_bool12(s):
    return s in BOOL_WORDS


def is_signed_nan(s):
    return len(s) == 5 and s[0] in '+-' and s[1:] in NAN_WORDS


def is_float12(s):
    n = len(s)
    i = 0
    if n and s[0] in '+-':
        i = 1
    if s[i:] in INF_WORDS:
        return True
    if s in NAN_WORDS:
        return True
    j = i
    d1 = 0
    while j < n and s[j] in DIGITS:
        j += 1
        d1 += 1
    point = False
    d2 = 0
    if j < n and s[j] == '.':
        point = True
        j += 1
        while j < n and s[j] in DIGITS:
            j += 1
            d2 += 1
    if d1 == 0 and d2 == 0:
        return False
    exp = False
    if j < n and s[j] in 'eE':
        k = j + 1
        if k < n and s[k] in '+-':
            k += 1
        d3 = 0
        while k < n and s[k] in DIGITS:
            k += 1
            d3 += 1
        if d3 == 0:
            return False
        exp = True
        j = k
    if j != n:
        return False
    return point or exp


def float12_value(s):
    """Value of a YAML 1.2 float spelling (what Python's float() gives)."""
    body = s[1:] if s[:1] in '+-' else s
    sign = -1.0 if s[:1] == '-' else 1.0
    if body in INF_WORDS:
        return sign * math.inf
    if body in NAN_WORDS:
        return math.nan
    return float(s)


def same_float(a, b):
    if not isinstance(a, float) or not isinstance(b, float):
        return False
    if math.isnan(a) or math.isnan(b):
        return math.isnan(a) and math.isnan(b)
    return a == b and math.copysign(1.0, a) == math.copysign(1.0, b)


def has_valid_prefix(s, pred):
    """Some proper prefix of s satisfies pred (the missing-end-anchor shape)."""
    for k in range(len(s) - 1, 0, -1):
        if pred(s[:k]):
            return True
    return False


# PyYAML's own implicit resolvers for the tags C09 leaves to PyYAML.
def _pyyaml_regex(tag):
    for lst in yaml.resolver.Resolver.yaml_implicit_resolvers.values():
        for t, rx in lst:
            if t == tag:
                return rx
    raise KeyError(tag)


_RX_INT = _pyyaml_regex(TAG_INT)
_RX_NULL = _pyyaml_regex(TAG_NULL)
_RX_TS = _pyyaml_regex(TAG_TS)
_RX_MERGE = _pyyaml_regex(TAG_MERGE)
_RX_VALUE = _pyyaml_regex(TAG_VALUE)


def ref_resolve_plain(s):
    """Tag an untagged *plain* scalar gets under the documented rules.

    Booleans and floats: the YAML 1.2 scanners above.  Everything else is
    PyYAML's (property C09 says so): its stock resolver table is consulted the
    way PyYAML does it - the entries registered for the first character, in
    table order - skipping its own (YAML 1.1) float and bool entries.
    """
    if is_bool12(s):
        return TAG_BOOL
    if is_float12(s) or is_signed_nan(s):
        return TAG_FLOAT
    table = yaml.resolver.Resolver.yaml_implicit_resolvers
    cands = list(table.get('' if s == '' else s[0], [])) + list(
        table.get(None, []))
    for tag, rx in cands:
        if tag in (TAG_FLOAT, TAG_BOOL):
            continue
        if rx.match(s):
            return tag
    return TAG_STR


# Every spelling any YAML 1.1 or 1.2 resolver could take for a non-string;
# used by the document renderers to decide what must be quoted.
def looks_special(s):
    if ref_resolve_plain(s) != TAG_STR:
        return True
    # YAML 1.1 resolvers of stock PyYAML (a plain 1.1 reader must agree too)
    for lst in yaml.resolver.Resolver.yaml_implicit_resolvers.values():
        for t, rx in lst:
            if rx.match(s):
                return True
    return False
