"""Case streams of (model spec, document text, meta) shared by several checks.
"""
from vlib import docs as D
from vlib import harness as H
from vlib import modelgen as G
from vlib import values as V

EMPTY_DOCS = ['', '# only a comment\n', '---\n', '--- \n...\n', '\n\n',
              '--- # c\n', '...\n', '%YAML 1.1\n---\n', '~', 'null', '---\n~\n']


def key_pool(spec):
    ks = set()
    for c in spec['classes']:
        for p in c.get('params', []):
            ks.add(p['name'])
            if '_' in p['name']:
                ks.add(p['name'].replace('_', '-'))
        ks.update(c.get('kwonly', []))
    ks.update(['foreign_key', 'kind', 'verif_unknown_key', 'self',
               '_yatiml_extra', 'return', 'args', 'kwargs', 'cls',
               # key names that look like format fields (messages are built
               # from key names) or are no identifiers
               '{x}', '{}', '{0}', 'a{', '%s', '%(k)s', '2nd', 'gr\u00f6\u00dfe'])
    return sorted(ks)


def class_names(spec):
    return [c['name'] for c in spec['classes']]


class Stream:
    """Generates cases for one model at a time."""

    def __init__(self, ctx, profile='free', str_classes=('look', 'uni'),
                 styles=None, finite=False, mutants=3, soup=1, empties=True,
                 share=0.0, cycles=0.3, aliases=0.3):
        self.ctx = ctx
        self.rng = ctx.rng
        self.profile = profile
        self.str_classes = str_classes
        self.styles = styles or D.STYLES
        self.finite = finite
        self.mutants = mutants
        self.soup = soup
        self.empties = empties
        self.share = share
        self.cycles = cycles
        self.aliases = aliases

    def new_model(self):
        spec = G.gen_model(self.rng, self.profile)
        try:
            m = H.model_of(spec)
        except Exception as e:      # generator produced an impossible model
            self.ctx.count('model_build_failed')
            self.ctx.note('model build failed: %s: %s' % (
                type(e).__name__, e))
            return None, None
        return H.clean_spec(spec), m

    def valid_specs(self, spec, m, n):
        """Up to n node specs of valid documents (projection of values)."""
        g = V.Gen(m, self.rng, self.str_classes, finite=self.finite,
                  share=self.share)
        out = []
        for _ in range(n):
            try:
                v = g.value(spec['doc_type'])
            except (V.NoValue, RecursionError):
                self.ctx.count('no_value_for_type')
                continue
            try:
                data = D.proj(m, v, sweeten=self.rng.random() < 0.7)
                out.append((v, D.spec_of(data)))
            except (ValueError, TypeError, RecursionError):
                self.ctx.count('projection_failed')
        return out

    def tagged_foreign_object(self, spec, m, sp):
        rng = self.rng
        plains = [c['name'] for c in spec['classes']
                  if c.get('kind', 'plain') in ('plain', 'dataclass')
                  and c.get('registered', True) and not m.is_abstract(
                      c['name']) and not c.get('parsed')]
        if not plains:
            return None
        cname = rng.choice(plains)
        g = V.Gen(m, rng, ('look',), finite=True)
        try:
            obj = g.instance(cname, 2)
            osp = D.spec_of(D.proj(m, obj, sweeten=rng.random() < 0.7))
        except (V.NoValue, RecursionError, ValueError, TypeError):
            return None
        if osp[0] != 'map':
            return None
        osp = osp[:2] + ['!' + type(obj).__name__]
        cands = [p for p, sub in D.paths(sp)
                 if (not p or p[-1][0] != 'k') and sub[0] in ('map', 's')]
        if not cands:
            return None
        # roots, list items and dict values rather than deep attributes
        cands.sort(key=len)
        p = rng.choice(cands[:max(1, len(cands) // 2)])
        return D.set_at(sp, p, osp)

    def cases(self, spec, m, n_values=2):
        """Yield (text, meta) for one model."""
        rng = self.rng
        kp = key_pool(spec)
        cn = class_names(spec)
        texts = []
        for v, sp in self.valid_specs(spec, m, n_values):
            style = rng.choice(self.styles)
            text = D.render(sp, style)
            texts.append(text)
            yield text, {'origin': 'valid', 'style': style, 'value': v,
                         'spec': sp}
            for _ in range(self.mutants):
                msp, what = sp, []
                for _ in range(1 if rng.random() < 0.7 else 2):
                    msp, w = D.mutate(msp, rng, cn, kp)
                    what.append(w)
                style = rng.choice(self.styles)
                try:
                    text = D.render(msp, style)
                except (ValueError, RecursionError):
                    continue
                texts.append(text)
                yield text, {'origin': 'mutant', 'what': '+'.join(what),
                             'style': style, 'spec': msp}
            if self.mutants and rng.random() < 0.4:
                # a structurally valid object of some registered class,
                # explicitly tagged as that class, where the document has
                # something else (or the whole document)
                f2 = self.tagged_foreign_object(spec, m, sp)
                if f2 is not None:
                    try:
                        yield D.render(f2, rng.choice(['block', 'flow'])), {
                            'origin': 'mutant',
                            'what': 'tagged-foreign-object', 'spec': f2}
                    except (ValueError, RecursionError):
                        pass
            al = {c['aliases'][a]: a for c in spec['classes']
                  for a in (c.get('aliases') or {})}
            if al:
                # the same document with enum members under their aliases
                a2, n_al = sp, 0
                for p, sub in D.paths(sp):
                    if sub[0] == 's' and sub[2] in al and (
                            not p or p[-1][0] != 'k'):
                        a2 = D.set_at(a2, p, ['s', sub[1], al[sub[2]]])
                        n_al += 1
                if n_al:
                    try:
                        yield D.render(a2, rng.choice(self.styles)), {
                            'origin': 'mutant', 'what': 'enum-alias',
                            'spec': a2}
                    except (ValueError, RecursionError):
                        pass
            if self.mutants and rng.random() < 0.35:
                d2 = D.dup_int_as_bool(sp, rng)
                if d2 is not None:
                    try:
                        yield D.render(d2, rng.choice(self.styles)), {
                            'origin': 'mutant', 'what': 'dup-int-as-bool',
                            'spec': d2}
                    except (ValueError, RecursionError):
                        pass
            if self.aliases and rng.random() < self.aliases:
                a2 = D.alias_two_scalars(sp, rng)
                if a2 is not None:
                    try:
                        yield D.render(a2, rng.choice(['block', 'flow'])), {
                            'origin': 'aliased', 'spec': None}
                    except (ValueError, RecursionError):
                        pass
            if self.aliases and rng.random() < self.aliases:
                asp, n = D.share_equal_subnodes(sp, rng, 0.8)
                if n:
                    try:
                        yield D.render(asp, rng.choice(
                            ['block', 'flow', 'json', 'dq'])), {
                                'origin': 'aliased', 'spec': None}
                    except (ValueError, RecursionError):
                        pass
            if self.cycles and rng.random() < self.cycles:
                csp = D.make_cycle(sp, rng)
                if csp is not None:
                    try:
                        yield D.render(csp, rng.choice(
                            ['block', 'flow', 'json', 'dq'])), {
                                'origin': 'cycle', 'spec': None}
                    except (ValueError, RecursionError):
                        pass
        if self.empties and rng.random() < 0.5:
            yield rng.choice(EMPTY_DOCS), {'origin': 'empty'}
        for _ in range(self.soup):
            r = rng.random()
            if r < 0.3:
                yield D.token_soup(rng), {'origin': 'soup'}
            elif r < 0.45:
                yield D.random_unicode(rng), {'origin': 'unicode'}
            elif r < 0.8 and texts:
                yield D.truncate_splice(rng, texts), {'origin': 'splice'}
            else:
                yield rng.choice(D.CYCLES), {'origin': 'cycle'}
