#!/venv/bin/python
"""Regenerate the seeded-changes table in DESIGN.md from seeded/*/meta.json."""
import glob
import json
import os
import re

HERE = os.path.dirname(os.path.dirname(os.path.abspath(__file__)))
rows = []
for d in sorted(glob.glob(os.path.join(HERE, 'seeded', '*'))):
    mp = os.path.join(d, 'meta.json')
    if not os.path.exists(mp):
        continue
    m = json.load(open(mp))
    notes = ''
    np_ = os.path.join(d, 'notes.md')
    if os.path.exists(np_):
        notes = open(np_).read()
    title = m.get('title') or ''
    if not title:
        for line in notes.splitlines():
            line = line.strip().lstrip('#').strip()
            if len(line) > 15:
                title = line
                break
    title = re.sub(r'[|`*]', '', title)[:110]
    caught = ['%s (%s)' % (p, '; '.join(
        re.sub(r'^%s ' % p, '', k)[:60] for k in c['violation_keys'][:2]))
        for p, c in sorted(m['checks'].items()) if c.get('caught')]
    missed = [p for p, c in sorted(m['checks'].items()) if not c.get('caught')]
    hist = m.get('history', '')
    st = m.get('status_on_current_head') or {}
    if st and not st.get('applies', True):
        hist = ('moot now: the patch no longer applies (later repository '
                'fixes touched the same lines); result from the tree it was '
                'written for. ' + hist)
    elif st and not st.get('still_breaks', True):
        hist = ('moot now: after the node-sharing repair it no longer '
                'breaks the property (nodes are never shared once aliases '
                'are expanded); result from the tree it was written for. '
                + hist)
    if m.get('frozen'):
        hist = hist.rstrip() + ' (' + m['frozen'] + ')'
    rows.append('| %s | %s | %s | %s | %s |' % (
        m['seed'], m['breaks_property'], title,
        '<br>'.join(caught) or '**not caught**',
        (hist[:620] + ('...' if len(hist) > 620 else '')) or (
            'also run, silent: ' + ', '.join(missed) if missed else '')))
table = ('| seed | breaks | change (first line of the agent\'s notes) | caught '
         'by quick check (first mechanism keys) | history |\n'
         '|---|---|---|---|---|\n' + '\n'.join(rows) + '\n')
p = os.path.join(HERE, 'DESIGN.md')
s = open(p).read()
a = '<!-- SEEDTABLE -->'
b = '<!-- /SEEDTABLE -->'
if b in s:
    i = s.index(a)
    j = s.index(b) + len(b)
    s = s[:i] + a + '\n' + table + b + s[j:]
else:
    s = s.replace(a, a + '\n' + table + b, 1)
open(p, 'w').write(s)
print('%d seeded changes in the table' % len(rows))
