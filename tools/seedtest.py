#!/venv/bin/python
"""Confirm a seeded change and run checks against it.

  tools/seedtest.py <seed-id> <source-dir> [--props C10,C05] [--tier quick]
                    [--keep] [--needs "text"] [--breaks C10]

<source-dir> holds patch.diff, demo.py, notes.md (as delivered by a
sub-agent).  Steps: scratch worktree of /repo under /tmp, apply the patch,
run the repository's own suite there (must still pass), run the demo against
/repo (must exit 0) and against the patched tree (must exit non-zero), run
the listed checks with VERIF_REPO pointing at the patched tree, remove the
worktree.  With --keep the seed is stored under /verif/seeded/<seed-id>/
together with meta.json recording what was run and what each check said.
"""
import argparse
import json
import os
import re
import shutil
import subprocess
import sys
import time

VERIF = os.path.dirname(os.path.dirname(os.path.abspath(__file__)))
PY = '/venv/bin/python'


def sh(cmd, env=None, cwd=None, timeout=3600):
    e = dict(os.environ)
    if env:
        e.update(env)
    p = subprocess.run(cmd, shell=isinstance(cmd, str), env=e, cwd=cwd,
                       stdout=subprocess.PIPE, stderr=subprocess.STDOUT,
                       timeout=timeout)
    return p.returncode, p.stdout.decode('utf-8', 'replace')


def key_counts(out):
    """{violation key: times seen} from a check's output."""
    res = {}
    cur = None
    for line in out.splitlines():
        m = re.match(r'^  key: (.*)$', line)
        if m:
            cur = m.group(1)
            res[cur] = 1
            continue
        m = re.search(r'\(seen (\d+) times\)\s*$', line)
        if m and cur:
            res[cur] = int(m.group(1))
            cur = None
    return res


def baseline_keys(base, props, tier):
    """Violation keys of the checks on the unpatched tree of an old commit
    (cached in .work/)."""
    cache = os.path.join(VERIF, '.work', 'baseline_keys.json')
    try:
        data = json.load(open(cache))
    except (OSError, ValueError):
        data = {}
    vh = sh(['git', '-C', VERIF, 'rev-parse', '--short', 'HEAD'])[1].strip()
    out = {}
    wt = None
    for p in props:
        k = 'counts %s %s %s %s' % (base, p, tier, vh)
        if k not in data:
            if wt is None:
                wt = '/tmp/wt/base_%s_%d' % (base, os.getpid())
                sh(['git', '-C', '/repo', 'worktree', 'add', '--detach', wt,
                    base])
            rc, o = sh([PY, os.path.join(VERIF, 'vcheck.py'), '--property',
                        p, '--tier', tier], env={'VERIF_REPO': wt},
                       cwd=VERIF, timeout=7200)
            data[k] = key_counts(o)
            os.makedirs(os.path.dirname(cache), exist_ok=True)
            json.dump(data, open(cache, 'w'), indent=1)
        out[p] = data[k]
    if wt:
        sh(['git', '-C', '/repo', 'worktree', 'remove', '--force', wt])
        shutil.rmtree(wt, ignore_errors=True)
    return out


def main():
    ap = argparse.ArgumentParser()
    ap.add_argument('seed_id')
    ap.add_argument('src')
    ap.add_argument('--props')
    ap.add_argument('--breaks')
    ap.add_argument('--tier', default='quick')
    ap.add_argument('--keep', action='store_true')
    ap.add_argument('--needs', default='')
    ap.add_argument('--skip-confirm', action='store_true')
    ap.add_argument('--base', default='HEAD',
                    help='commit of /repo the patch was written for (when it '
                    'no longer applies to HEAD)')
    a = ap.parse_args()
    breaks = a.breaks or a.seed_id.split('_')[0]
    props = (a.props or breaks).split(',')
    patch = os.path.join(a.src, 'patch.diff')
    demo = os.path.join(a.src, 'demo.py')
    wt = '/tmp/wt/run_%s_%d' % (a.seed_id, os.getpid())
    meta = {'seed': a.seed_id, 'breaks_property': breaks,
            'needs_to_manifest': a.needs, 'ran': [], 'checks': {}}
    rc, out = sh(['git', '-C', '/repo', 'worktree', 'add', '--detach', wt,
                  a.base])
    if rc:
        print(out)
        return 2
    base_keys = {}
    try:
        rc, out = sh(['git', '-C', wt, 'apply', os.path.abspath(patch)])
        if rc and a.base == 'HEAD':
            # the repository has moved on: merge the change into HEAD
            sh(['git', '-C', wt, 'checkout', '--', '.'])
            rc, out2 = sh(['git', '-C', wt, 'apply', '--3way',
                           os.path.abspath(patch)])
            conflict = rc or 'with conflicts' in out2 or sh(
                'grep -rl "^<<<<<<< " yatiml', cwd=wt)[1].strip()
            if conflict:
                print('patch does not apply:', out, out2[-300:])
                return 2
            sh(['git', '-C', wt, 'reset', '-q'])
            meta['applied'] = 'three-way merge onto HEAD'
            print('applied by three-way merge')
        elif rc:
            print('patch does not apply:', out)
            return 2
        if a.base != 'HEAD':
            # checks also fire on defects the old tree still had: only keys
            # that the unpatched old tree does not produce count
            base_keys = baseline_keys(a.base, props, a.tier)
            meta['applied'] = 'on the commit it was written for (%s)' % a.base
        meta['repo_head'] = sh(['git', '-C', '/repo', 'rev-parse', '--short',
                                a.base])[1].strip()
        env = {'PYTHONPATH': wt, 'PYTHONDONTWRITEBYTECODE': '1'}
        merged = meta.get('applied', '').startswith('three-way')
        if merged or not a.skip_confirm:
            # (a merged change is confirmed again: a merge may apply cleanly
            # and still not be the change that was delivered)
            rc, out = sh('%s -m pytest -q -p no:cacheprovider -x 2>&1 | tail -3'
                         % PY, env=env, cwd=wt)
            m = re.search(r'(\d+) passed', out)
            failed = re.search(r'(\d+) failed', out)
            meta['suite_on_patched'] = out.strip().splitlines()[-1] if out.strip() else ''
            ok_suite = bool(m) and int(m.group(1)) == 180 and not failed
            meta['ran'].append('pytest in a scratch worktree with the patch '
                               'applied: ' + meta['suite_on_patched'])
            print('suite on patched tree:', meta['suite_on_patched'])
            rc0, out0 = sh([PY, os.path.abspath(demo)],
                           env={'PYTHONPATH': '/repo',
                                'PYTHONDONTWRITEBYTECODE': '1'}, cwd='/tmp')
            rc1, out1 = sh([PY, os.path.abspath(demo)], env=env, cwd='/tmp')
            meta['demo_unpatched_exit'] = rc0
            meta['demo_patched_exit'] = rc1
            meta['demo_patched_output'] = out1[-600:]
            meta['ran'].append('demo.py against /repo (exit %d) and against '
                               'the patched tree (exit %d)' % (rc0, rc1))
            print('demo: unpatched exit %d, patched exit %d' % (rc0, rc1))
            meta['confirmed'] = ok_suite and rc0 == 0 and rc1 != 0
            if not meta['confirmed']:
                print('NOT CONFIRMED', out0[-300:], out1[-300:])
                if merged:
                    print('patch does not apply: the three-way merge onto '
                          'HEAD is not the delivered change any more')
                    return 2
        for p in props:
            t0 = time.time()
            rc, out = sh([PY, os.path.join(VERIF, 'vcheck.py'), '--property',
                          p, '--tier', a.tier], env={'VERIF_REPO': wt},
                         cwd=VERIF, timeout=7200)
            keys = re.findall(r'^  key: (.*)$', out, re.M)
            if base_keys.get(p):
                # a key the unpatched old tree produces too counts only if
                # the change makes it fire much more often
                bc = base_keys[p]
                if isinstance(bc, list):
                    bc = {k: 10 ** 9 for k in bc}
                pc = key_counts(out)
                keys = [k for k in keys if k not in bc
                        or pc.get(k, 0) >= 2 * bc[k] + 5]
            meta['checks'][p] = {
                'tier': a.tier, 'exit': rc, 'violation_keys': keys[:12],
                'wall_s': round(time.time() - t0, 1),
                'caught': rc == 1 and bool(keys)}
            meta['ran'].append(
                'VERIF_REPO=<patched worktree> vcheck.py --property %s '
                '--tier %s -> exit %d' % (p, a.tier, rc))
            print('%s %s: exit %d, %d violation keys, %.0fs' % (
                p, a.tier, rc, len(keys), time.time() - t0))
            for k in keys[:6]:
                print('    ', k)
            if rc not in (0, 1):
                print(out[-1500:])
    finally:
        sh(['git', '-C', '/repo', 'worktree', 'remove', '--force', wt])
        shutil.rmtree(wt, ignore_errors=True)
    if a.keep:
        dst = os.path.join(VERIF, 'seeded', a.seed_id)
        os.makedirs(dst, exist_ok=True)
        for f in ('patch.diff', 'demo.py', 'notes.md'):
            if os.path.exists(os.path.join(a.src, f)) and \
                    os.path.abspath(a.src) != os.path.abspath(dst):
                shutil.copy(os.path.join(a.src, f), os.path.join(dst, f))
        old = {}
        mp = os.path.join(dst, 'meta.json')
        if os.path.exists(mp):
            old = json.load(open(mp))
            for k in ('needs_to_manifest',):
                if not meta.get(k):
                    meta[k] = old.get(k, '')
            if a.skip_confirm:
                for k in ('suite_on_patched', 'demo_unpatched_exit',
                          'demo_patched_exit', 'demo_patched_output',
                          'confirmed'):
                    if k in old:
                        meta[k] = old[k]
            oc = old.get('checks', {})
            oc.update(meta['checks'])
            meta['checks'] = oc
            for k in old:       # history, origin, written_for, status, ...
                if k not in meta:
                    meta[k] = old[k]
        with open(mp, 'w') as f:
            json.dump(meta, f, indent=1)
            f.write('\n')
    return 0


if __name__ == '__main__':
    sys.exit(main())
