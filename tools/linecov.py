#!/venv/bin/python
"""Union of the yatiml source lines reached by the checks (reads
.work/linecov/<prop>-<tier>.json, written by every run) and the lines that no
check reached, with their source text.

    /venv/bin/python tools/linecov.py [quick|thorough]
"""
import glob
import json
import os
import sys

VERIF = os.path.dirname(os.path.dirname(os.path.abspath(__file__)))


def main():
    tier = sys.argv[1] if len(sys.argv) > 1 else 'quick'
    hit, allp, per = set(), set(), {}
    repo = '/repo'
    for f in sorted(glob.glob(os.path.join(VERIF, '.work', 'linecov',
                                           '*-%s.json' % tier))):
        d = json.load(open(f))
        if d.get('repo') != '/repo':
            continue
        h = set(d['hit'])
        per[os.path.basename(f)[:3]] = h
        hit |= h
        allp |= h | set(d['missed'])
    print('checks with line data:', ' '.join(sorted(per)))
    print('lines reached by at least one check: %d of %d' % (len(hit), len(allp)))
    src = {}
    for s in sorted(allp - hit, key=lambda s: (s.split(':')[0],
                                               int(s.split(':')[1]))):
        fn, ln = s.split(':')
        if fn not in src:
            src[fn] = open(os.path.join(repo, 'yatiml', fn)).read().splitlines()
        print('  %-18s %4d  %s' % (fn, int(ln), src[fn][int(ln) - 1].strip()[:100]))
    only = {}
    for p, h in per.items():
        others = set().union(*[x for q, x in per.items() if q != p]) if len(per) > 1 else set()
        only[p] = len(h - others)
    print('lines reached by one check only:', json.dumps(only, sort_keys=True))


if __name__ == '__main__':
    main()
