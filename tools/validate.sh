#!/bin/sh
# validate MANIFEST.json and all evidence files against the schemas
python3-vt - <<'PY'
import json, jsonschema, glob, sys
m=json.load(open('/verif/MANIFEST.json')); jsonschema.validate(m, json.load(open('/root/.vp/MANIFEST.schema.json')))
s=json.load(open('/root/.vp/EVIDENCE.schema.json'))
for c in m['checks']:
    p='/verif/'+c['evidence_file']
    try:
        e=json.load(open(p)); jsonschema.validate(e, s)
        print(c['property_id'], 'ok', e['tier'], e['coverage']['evaluations'], e['coverage']['distinct_nontrivial'], e['wall_s'])
    except Exception as ex:
        print(c['property_id'], 'BAD', str(ex)[:200]); 
PY
