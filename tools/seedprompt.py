"""Write the task files handed to the seeding sub-agents (one per property).

    python3 tools/seedprompt.py <round-dir> <letters> [ids...]

e.g. `python3 tools/seedprompt.py /tmp/wt4 IJK` creates a scratch worktree
/tmp/wt4/<id> of /repo per property and /tmp/wt4/prompts/<id>.txt.  A
sub-agent gets nothing but that file: the property record (id, title,
statement, quantifier, anchors) and its own worktree - nothing from /verif.
"""
import json
import os
import subprocess
import sys

T = '''You are helping to test a verification effort by playing the role of a developer who introduces a subtle, realistic bug.

The repository is yatiml, a pure-Python library that type-checks YAML against Python class annotations and generates load/dump functions on top of PyYAML. You have your own scratch git worktree of it at {dir} (library source in {dir}/yatiml, tests in {dir}/tests, docs in {dir}/docs). Do NOT use `git stash` (it is shared between worktrees): use `git diff > file`, `git apply -R` or `git checkout -- yatiml`. Work ONLY inside {dir}. Never read or modify /repo or /verif (or anything under them), and do not look at any other directory under {root}.

Run things like this (no network is available; nothing can be installed):
  cd {dir} && PYTHONPATH={dir} PYTHONDONTWRITEBYTECODE=1 /venv/bin/python -m pytest -q -p no:cacheprovider      (the existing suite: 180 tests, all pass on the unchanged tree)
  cd {dir} && PYTHONPATH={dir} PYTHONDONTWRITEBYTECODE=1 /venv/bin/python some_script.py

Here is a semantic property of yatiml that currently holds (as a JSON record; "statement" is the property, "anchors" says where the responsible code is):

{prop}

YOUR TASK: produce THREE independent changes ({names}, with different mechanisms, in different functions and preferably different files) to the library source under {dir}/yatiml/ such that each change, applied alone to the unchanged tree:
  1. still imports/compiles and PASSES THE ENTIRE EXISTING TEST SUITE (all 180 tests) unchanged;
  2. BREAKS the property above (makes yatiml violate the statement for some input / sequence / configuration) - be precise about which clause;
  3. needs something SPECIFIC to manifest and is NOT something that ordinary everyday use (or the simplest possible example) would expose at once;
  4. is REALISTIC: the kind of slip a maintainer could plausibly make in a refactoring, an optimisation, a "simplification", or a feature addition (off-by-one, wrong branch condition, caching, a forgotten case, a too-broad or too-narrow check, state kept where it should not be, ...). Not sabotage keyed on a magic string. Keep each change small (a few lines).

{emphasis}

For each seed X in ({letters}) deliver, in {dir}/seed_X/:
  - patch.diff : output of `git diff -- yatiml` with only that change applied (must apply cleanly with `git apply` on the unchanged tree);
  - demo.py    : a small standalone program (imports yatiml, defines whatever classes it needs) that exits with status 0 and prints "OK" when the property holds on what it tries, and exits with status 1 printing what went wrong when the property is violated. It must exit 0 on the unchanged tree and exit 1 with the patch applied. It is run as `PYTHONPATH=<root of a yatiml checkout> /venv/bin/python demo.py`, so it must not hard-code {dir};
  - notes.md   : 5-15 lines: which part of the statement is broken, the mechanism, and exactly what is needed for it to manifest (input shape, sequence, ordering...), and why the existing tests do not notice.

VERIFY all of this yourself before finishing: unchanged tree -> suite passes and demo exits 0; with the patch -> suite still passes (180 passed) and demo exits 1. Finally restore the source (`git -C {dir} checkout -- yatiml`) so that the worktree is unchanged apart from the seed directories.

If a candidate change makes any existing test fail, it is not acceptable - find another. Prefer changes whose effect is confined to situations the existing tests do not exercise. If, while reading the code, you notice that the UNCHANGED tree already violates the property for some input, say so at the end (input and what happens) - but still deliver the three changes. In your final answer, summarise the three changes in a few lines each.'''

EMPHASIS = {
    4: '''Make them DIFFERENT IN KIND from a one-line slip in the most obvious function, and different from each other:
  (a) one change must only manifest through an INTERACTION of two features that are each fine alone (a particular type nesting such as Dict[str, List[Union[A, B]]] or Optional inside List, inheritance together with seasoning, enums inside Unions, aliases together with seasoning, JSON versus YAML output, str versus bytes versus Path versus stream arguments, ...);
  (b) one must depend on HISTORY: something done by an earlier call (a previous load or dump with the same or with another generated function, an earlier failure, creation order of functions, registration order of classes, an earlier document) changes what a later call does;
  (c) one must affect only a narrow slice of VALUES rather than shapes (particular numbers, strings that look like other YAML types, empty collections, non-ASCII text, long or deeply nested data, special floats, keys that need quoting, ...).
Look beyond the functions named in the anchors - at the code they call and at the rarely used kinds of classes, types and YAML features that the library's documentation says it supports.''',
    5: '''Make them DIFFERENT IN KIND from a one-line slip in the most obvious function, and different from each other:
  (a) one change must be in how yatiml USES PyYAML (the composer / resolver / constructor / representer / serializer / emitter machinery it builds on: node objects and their tags and marks, the implicit resolver tables, generator-style constructors that PyYAML resumes later, represented_objects and alias keys, anchors, flow/block styles, multi-document streams) - a wrong assumption about what PyYAML does, or about when it does it;
  (b) one must be in how yatiml INSPECTS PYTHON types and classes (typing generics and their __origin__/__args__, Optional/Union normalisation and member order, nested generics, inspect.signature / getfullargspec, defaults, keyword-only or positional-only parameters, dataclasses, enums and enum aliases, ABCs, classes that inherit __init__, str/UserString subclasses, __dict__ versus hasattr) - a case that one of these reports differently from what the code assumes;
  (c) one must be on an ERROR or CLEAN-UP path: what happens after something failed (an exception converted or swallowed too broadly or too narrowly, a message built from the wrong node, state or a resource not restored after a failure, a fallback branch that is taken in one more case than intended).
Look beyond the functions named in the anchors - at the code they call and at the rarely used kinds of classes, types and YAML features that the library's documentation says it supports.''',
    6: '''Make them the kind of change that is made WITH GOOD INTENTIONS and reviewed quickly, each different from the others:
  (a) one PERFORMANCE change: a cache or memo (per class, per loader, per module), an early exit or fast path for the common case, work moved out of a loop or done lazily, a cheaper comparison replacing an exact one;
  (b) one ROBUSTNESS or CONVENIENCE change: accepting a little more than before (stripping or normalising text, tolerating a missing or None value, catching a broader exception, a fallback default), or a friendlier error message that needs extra look-ups;
  (c) one MODERNISATION or CLEAN-UP: replacing a hand-written loop by a comprehension, any()/all(), dict/set operations, a standard-library helper (functools, itertools, inspect, typing, copy, contextlib), merging two similar branches, removing an apparently redundant check or copy.
In each case the change must look equivalent to the old code on everything the tests and the documentation examples do. Look beyond the functions named in the anchors - at the code they call and at the rarely used kinds of classes, types and YAML features that the library's documentation says it supports.''',
    7: '''Make each of them a change whose defect is NOT visible in the changed lines alone, each different from the others:
  (a) one change with TWO COOPERATING SITES: a helper, utility or shared table gets a slightly different contract (what it returns for an edge case, whether it copies or shares, which exception it raises, whether it expects stripped / tagged / resolved input) and its obvious callers are adapted, but one less obvious caller or one less common path (JSON versus YAML, Path versus stream, enum or string-like classes versus ordinary classes, Union members versus direct attributes, the dashed-key path, _yatiml_extra) still relies on the old contract; each site looks fine on its own;
  (b) one change in the handling of ABSENT, EMPTY or DEFAULT things: None versus missing, empty strings / lists / mappings / documents, zero and False, parameters with defaults (mutable defaults, defaults of another type than the annotation, _yatiml_defaults), Optional at unusual depths, classes without parameters, classes that inherit their __init__;
  (c) one change that concerns TEXT: character classes (ASCII versus Unicode digits / letters / whitespace), case, line breaks (CR, NEL, LS/PS), quoting and escaping, number formatting (exponents, signs, underscores, leading zeros), string comparison versus value comparison, positions (line / column, 0- versus 1-based) and key names in messages.
In each case the change must look equivalent to the old code on everything the tests and the documentation examples do. Look beyond the functions named in the anchors - at the code they call and at the rarely used kinds of classes, types and YAML features that the library's documentation says it supports.''',
}


def main():
    root, letters = sys.argv[1], sys.argv[2]
    ids = sys.argv[3:]
    rnd = int(os.environ.get('SEED_ROUND', '4'))
    here = os.path.dirname(os.path.dirname(os.path.abspath(__file__)))
    os.makedirs(os.path.join(root, 'prompts'), exist_ok=True)
    for line in open(os.path.join(here, 'properties.jsonl')):
        p = json.loads(line)
        if ids and p['id'] not in ids:
            continue
        d = os.path.join(root, p['id'])
        if not os.path.isdir(d):
            subprocess.check_call(['git', '-C', '/repo', 'worktree', 'add',
                                   '--detach', '-q', d, 'HEAD'])
        rec = {k: p[k] for k in ('id', 'title', 'statement', 'quantifier',
                                 'anchors')}
        names = ', '.join('seed_' + c for c in letters)
        with open(os.path.join(root, 'prompts', p['id'] + '.txt'), 'w') as f:
            f.write(T.format(dir=d, root=root, prop=json.dumps(rec, indent=1),
                             names=names, letters=', '.join(letters),
                             emphasis=EMPHASIS[rnd]))
        print(p['id'], d)


if __name__ == '__main__':
    main()
