#!/bin/sh
# confirm and test the seeds a round of sub-agents delivered:
#   sh tools/seedbatch.sh /tmp/wt4 "I J K" [ids...]
cd "$(dirname "$0")/.."
root=$1; letters=$2; shift 2
ids=${*:-"C01 C02 C03 C04 C05 C06 C07 C08 C09 C10 C11 C12 C13 C14 C15 C16 C17 C18"}
for id in $ids; do
  for x in $letters; do
    src=$root/$id/seed_$x
    [ -f $src/patch.diff ] || continue
    [ -f seeded/${id}_$x/meta.json ] && continue
    echo "=== ${id}_$x"
    /venv/bin/python tools/seedtest.py ${id}_$x $src --keep --props $id 2>&1 | grep -v "^WARNING"
  done
done
