#!/venv/bin/python
"""Replace literal non-ASCII characters in the given .py files by \\uXXXX escapes."""
import sys
for p in sys.argv[1:]:
    s = open(p, encoding='utf-8').read()
    t = ''.join(c if ord(c) < 128 else ('\\u%04x' % ord(c) if ord(c) < 0x10000 else '\\U%08x' % ord(c)) for c in s)
    if t != s:
        open(p, 'w', encoding='utf-8').write(t)
        print('asciified', p)
