"""Re-run kept seeded changes against the current checks and refresh their
meta.json.

    /venv/bin/python tools/reseed.py [--only C05_,C07_J] [--new-from /tmp/wt4 IJK]

A seed whose patch no longer applies to /repo's HEAD, or which no longer
breaks its property there (status_on_current_head in meta.json, written by
tools/seedstatus.py), is run against the commit it was written for
(meta.json: written_for, else repo_head): the question "does the check catch
this change" stays answerable after the repository has moved on.
"""
import glob
import json
import os
import subprocess
import sys

HERE = os.path.dirname(os.path.dirname(os.path.abspath(__file__)))
PY = '/venv/bin/python'


def run(seed_id, src, props, base=None, confirm=False):
    cmd = [PY, os.path.join(HERE, 'tools', 'seedtest.py'), seed_id, src,
           '--keep', '--props', props]
    if not confirm:
        cmd.append('--skip-confirm')
    if base:
        cmd += ['--base', base]
    r = subprocess.run(cmd, capture_output=True, text=True, cwd=HERE)
    out = '\n'.join(l for l in (r.stdout + r.stderr).splitlines()
                    if not l.startswith('WARNING'))
    print(out, flush=True)
    return out


def main():
    args = sys.argv[1:]
    only = None
    if '--only' in args:
        only = args[args.index('--only') + 1].split(',')
    if '--new-from' in args:
        i = args.index('--new-from')
        root, letters = args[i + 1], args[i + 2]
        base = args[i + 3] if len(args) > i + 3 and not args[
            i + 3].startswith('--') else None
        for d in sorted(glob.glob(os.path.join(root, 'C??'))):
            pid = os.path.basename(d)
            for x in letters:
                src = os.path.join(d, 'seed_' + x)
                sid = '%s_%s' % (pid, x)
                if not os.path.isfile(os.path.join(src, 'patch.diff')):
                    continue
                if only and not any(sid.startswith(o) for o in only):
                    continue
                print('=== %s (new)' % sid, flush=True)
                out = run(sid, src, pid, None, confirm=True)
                if 'patch does not apply' in out and base:
                    print('    run against %s instead' % base, flush=True)
                    run(sid, src, pid, base, confirm=True)
                mp = os.path.join(HERE, 'seeded', sid, 'meta.json')
                if os.path.exists(mp) and base:
                    m = json.load(open(mp))
                    m.setdefault('written_for', base)
                    json.dump(m, open(mp, 'w'), indent=1)
        return
    for d in sorted(glob.glob(os.path.join(HERE, 'seeded', '*'))):
        sid = os.path.basename(d)
        if only and not any(sid.startswith(o) for o in only):
            continue
        mp = os.path.join(d, 'meta.json')
        m = json.load(open(mp))
        if m.get('frozen'):
            print('=== %s: frozen (%s)' % (sid, m['frozen'][:80]), flush=True)
            continue
        own = m['breaks_property']
        props = ','.join([own] + [p for p in m.get('checks', {})
                                  if p != own])
        st = m.get('status_on_current_head') or {}
        base = None
        moot = st.get('applies') is False or st.get('still_breaks') is False
        old_base = m.get('written_for') or m.get('repo_head')
        if moot:
            base = old_base
        print('=== %s (%s)%s' % (sid, props, ' against ' + base
                                 if base else ''), flush=True)
        out = run(sid, d, props, base)
        if 'patch does not apply' in out and not base and old_base:
            print('    run against %s instead' % old_base, flush=True)
            run(sid, d, props, old_base)


if __name__ == '__main__':
    main()
