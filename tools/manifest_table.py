HOOK_COMMITS = []
NOT_APPLICABLE = {}
CHECKS = {
 'C09': {
  'technique': 'runtime monitoring: live resolver table of real loader instances and end-to-end loads compared online with hand-written YAML 1.2 scanners, bounded-exhaustive over the number/boolean alphabets',
  'text': 'Every string over the 14-symbol number alphabet up to length 5 (quick) / 6 (thorough) and over the boolean letters up to 5/6, plus near misses and random longer strings, is put to the implicit resolver of a live loader instance and compared with an independent YAML 1.2 scanner; everything either side calls float/bool and a sample of the rest is loaded end to end in three contexts and type/value compared. Exhaustive up to the bound, sampled beyond.',
  'note': 'Trusted: PyYAML scanner and its int/null/timestamp typing, CPython float(). The unbounded-length half of the quantifier (automata equivalence of the regex table) is a static argument that runtime monitoring cannot supply; not claimed. Signed .nan is unspecified and not judged.'},
}
