#!/bin/sh
# tools/sweep.sh <tier> <seeds...> : run every registered check for the given
# seeds and print one summary line each (exit codes other than 0 are flagged)
tier=$1; shift
cd "$(dirname "$0")/.."
props=$(/venv/bin/python -c "import json;print(' '.join(c['property_id'] for c in json.load(open('MANIFEST.json'))['checks']))")
for seed in "$@"; do
  for p in $props; do
    out=$(VERIF_SEED=$seed VERIF_WRITE_EVIDENCE= VERIF_REPO=${VERIF_REPO:-/repo} /venv/bin/python vcheck.py --property $p --tier $tier --seed $seed 2>&1 | grep -v "^WARNING")
    rc=$?
    echo "$out" | grep -E "^(VIOLATION|INCONCLUSIVE|  key:|$p tier)" | cut -c1-400
  done
done
