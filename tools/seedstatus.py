#!/venv/bin/python
"""For every kept seeded change: does the patch still apply to /repo's HEAD,
and does its demo still fail there?  (Repository fixes made after a seed was
written can make it moot: e.g. once aliases are expanded before processing, a
memo keyed by node object never hits.)  Records the answer in meta.json."""
import glob
import json
import os
import subprocess
import sys

HERE = os.path.dirname(os.path.dirname(os.path.abspath(__file__)))
PY = '/venv/bin/python'


def sh(cmd, **kw):
    p = subprocess.run(cmd, stdout=subprocess.PIPE, stderr=subprocess.STDOUT,
                       **kw)
    return p.returncode, p.stdout.decode('utf-8', 'replace')


head = sh(['git', '-C', '/repo', 'rev-parse', '--short', 'HEAD'])[1].strip()
wt = '/tmp/wt/status_%d' % os.getpid()
sh(['git', '-C', '/repo', 'worktree', 'add', '--detach', wt, 'HEAD'])
try:
    for d in sorted(glob.glob(os.path.join(HERE, 'seeded', '*'))):
        mp = os.path.join(d, 'meta.json')
        m = json.load(open(mp))
        sh(['git', '-C', wt, 'checkout', '--', '.'])
        rc, out = sh(['git', '-C', wt, 'apply',
                      os.path.join(d, 'patch.diff')])
        st = {'repo_head': head}
        if rc:
            # the repository has moved on: try to merge the change in
            sh(['git', '-C', wt, 'checkout', '--', '.'])
            rc, out = sh(['git', '-C', wt, 'apply', '--3way',
                          os.path.join(d, 'patch.diff')])
            if not rc and 'with conflicts' not in out:
                st['merged'] = True
                sh(['git', '-C', wt, 'reset', '-q'])
            else:
                rc = 1
                sh(['git', '-C', wt, 'reset', '-q', '--hard'])
        if rc:
            st['applies'] = False
        else:
            st['applies'] = True
            env = dict(os.environ, PYTHONPATH=wt, PYTHONDONTWRITEBYTECODE='1')
            rc1, out1 = sh([PY, os.path.join(d, 'demo.py')], env=env,
                           cwd='/tmp', timeout=300)
            env0 = dict(os.environ, PYTHONPATH='/repo',
                        PYTHONDONTWRITEBYTECODE='1')
            rc0, _ = sh([PY, os.path.join(d, 'demo.py')], env=env0,
                        cwd='/tmp', timeout=300)
            st['demo_on_head'] = rc0
            st['demo_on_patched_head'] = rc1
            st['still_breaks'] = rc0 == 0 and rc1 != 0
        m['status_on_current_head'] = st
        json.dump(m, open(mp, 'w'), indent=1)
        open(mp, 'a').write('\n')
        print(m['seed'], st)
finally:
    sh(['git', '-C', '/repo', 'worktree', 'remove', '--force', wt])
