#!/bin/sh
# tools/thorough_some.sh <seed> <props...> : thorough tier of the given checks, one summary each
seed=$1; shift
cd "$(dirname "$0")/.."
for p in "$@"; do
  VERIF_SEED=$seed VERIF_WRITE_EVIDENCE= /venv/bin/python vcheck.py --property $p --tier thorough --seed $seed 2>&1 | grep -v "^WARNING" | grep -E "^(VIOLATION|INCONCLUSIVE|KNOWN|  key:|  what:|$p tier)" | cut -c1-500
done
