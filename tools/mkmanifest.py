#!/venv/bin/python
"""Regenerate MANIFEST.json from the table below (kept valid at all times)."""
import json
import os
import sys

HERE = os.path.dirname(os.path.dirname(os.path.abspath(__file__)))
sys.path.insert(0, HERE)
from tools.manifest_table import CHECKS, NOT_APPLICABLE, HOOK_COMMITS   # noqa

BASELINE = ('cd /repo && /venv/bin/python -m pytest -ra -q -p no:cacheprovider '
            '--timeout=900 --continue-on-collection-errors')

props = [json.loads(l)['id'] for l in open(os.path.join(HERE, 'properties.jsonl'))]
checks = []
for pid in props:
    if pid not in CHECKS:
        continue
    c = CHECKS[pid]
    checks.append({
        'property_id': pid,
        'quick_cmd': '/venv/bin/python vcheck.py --property %s --tier quick' % pid,
        'thorough_cmd': '/venv/bin/python vcheck.py --property %s --tier thorough' % pid,
        'evidence_file': 'evidence/%s.json' % pid,
        'replay_cmd_template': '/venv/bin/python vcheck.py --property %s --replay {path}' % pid,
        'engine': 'vcheck',
        'level_claimed': {'category': 'exploration', 'text': c['text'],
                          'design_ref': 'DESIGN.md section 4, %s' % pid},
        'level_note': c['note'],
        'technique': c['technique'],
    })
na = [{'property_id': p, 'reason': NOT_APPLICABLE.get(p, 'check not built yet in this round; no claim is made')}
      for p in props if p not in CHECKS]
m = {
    'version': 1,
    'setup_cmd': '/venv/bin/python vcheck.py --selfcheck',
    'hooks': {
        'guard': 'YATIML_VERIF',
        'enable': 'No source hooks in /repo: all instrumentation (generated self-instrumenting user classes, wrappers on yatiml.Node/UnknownNode/Recognizer/Dumper, sys.monitoring, audit hooks) is installed from /verif at run time inside shard processes, which run with YATIML_VERIF=1. Checks import /repo\'s working tree directly (VERIF_REPO, default /repo, first on sys.path); there is nothing to build.',
        'baseline_off_cmd': BASELINE,
        'source_commits': HOOK_COMMITS,
        'add_only': True,
    },
    'engines': [{'name': 'vcheck', 'path': 'vcheck.py',
                 'serves_properties': [c['property_id'] for c in checks],
                 'kind_free_text': 'runtime monitoring: generated/enumerated workloads driven through the real yatiml code in 16 shard subprocesses, with boundary monitors (self-instrumenting user classes, outcome digests, reference models) deciding each case; three-valued verdicts (exit 0 held / 1 violation / 2 inconclusive)'}],
    'checks': checks,
    'not_applicable': na,
    'notes': 'Exit 2 (no VIOLATION line) means inconclusive: a deciding monitor observed too little or a shard died. known_findings.json lists recorded and fixed defects. See DESIGN.md.',
}
with open(os.path.join(HERE, 'MANIFEST.json'), 'w') as f:
    json.dump(m, f, indent=1)
    f.write('\n')
print('MANIFEST.json: %d checks, %d not claimed' % (len(checks), len(na)))
