#!/bin/sh
# re-run every kept seeded change against the quick checks recorded in its
# meta.json (own property first) and refresh meta.json
cd "$(dirname "$0")/.."
for d in seeded/*; do
  id=$(basename $d)
  props=$(/venv/bin/python -c "
import json,sys
m=json.load(open('$d/meta.json'))
own=m['breaks_property']
ps=[own]+[p for p in m.get('checks',{}) if p!=own]
print(','.join(ps))")
  echo "=== $id ($props)"
  /venv/bin/python tools/seedtest.py $id $d --keep --skip-confirm --props $props 2>&1 | grep -v "^WARNING"
done
