#!/venv/bin/python
"""Entry point of every check.

  vcheck.py --property C07 --tier quick            run (spawns shards)
  vcheck.py --property C07 --replay replay/C07/x.json
  vcheck.py --selfcheck                            environment check (setup_cmd)

Environment: VERIF_SEED, VERIF_TIER, VERIF_REPO, VERIF_SHARDS, VERIF_SCALE.
"""
import argparse
import os
import sys

sys.dont_write_bytecode = True
sys.path.insert(0, os.path.dirname(os.path.abspath(__file__)))

from vlib import env      # noqa: E402


def main():
    ap = argparse.ArgumentParser()
    ap.add_argument('--property')
    ap.add_argument('--tier', default=os.environ.get('VERIF_TIER', 'quick'))
    ap.add_argument('--seed', type=int,
                    default=int(os.environ.get('VERIF_SEED', '0') or 0))
    ap.add_argument('--shard')
    ap.add_argument('--out')
    ap.add_argument('--replay')
    ap.add_argument('--selfcheck', action='store_true')
    a = ap.parse_args()
    if a.tier not in ('quick', 'thorough'):
        a.tier = 'quick'

    if a.selfcheck:
        env.bootstrap()
        import yaml
        import yatiml
        print('python', sys.version.split()[0], 'yaml', yaml.__version__,
              'yatiml', yatiml.__file__)
        return 0

    # the main process re-executes itself under the pinned interpreter and
    # environment so that a stray PYTHONHASHSEED / locale cannot change a run
    if a.shard is None and os.environ.get(env.GUARD) != '1':
        import subprocess
        return subprocess.call([env.PYTHON] + sys.argv, env=env.child_env())

    from vlib import runner
    if a.shard:
        i, n = a.shard.split('/')
        return runner.run_shard(a.property, a.tier, a.seed, int(i), int(n),
                                a.out)
    if a.replay:
        return runner.run_replay(a.property, a.replay)
    return runner.run_property(a.property, a.tier, a.seed)


if __name__ == '__main__':
    sys.exit(main())
